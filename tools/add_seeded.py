#!/usr/bin/env python3
"""tools/add_seeded.py <id> <property> <patch> <demo> <caught_by csv> <missed_before csv> '<needs>' ['<note>']
Stores a confirmed seeded change under /verif/seeded/<id>/ (patch.diff, demo.py, meta.json)."""
import sys, os, json, shutil
sid, prop, patch, demo, caught, missed, needs = sys.argv[1:8]
note = sys.argv[8] if len(sys.argv) > 8 else ""
d = os.path.join("/verif/seeded", sid)
os.makedirs(d, exist_ok=True)
shutil.copy(patch, os.path.join(d, "patch.diff"))
shutil.copy(demo, os.path.join(d, "demo.py"))
meta = {"id": sid, "breaks_property": prop, "needs_to_manifest": needs,
        "origin": "written by a fresh sub-agent given only the property text and a scratch worktree of /repo",
        "confirmed": {"demo": "fails on the patched scratch worktree, passes on the clean one (tools/confirm_seeded.sh)",
                      "tests": "pinned test-suite: 869 stable-pass tests still pass (the 4 ids embedding the /repo path run under the worktree path)",
                      "checks_run": "tools/try_seeded.sh patch.diff <ids> (quick tier, scratch worktree, /repo untouched)"},
        "caught_by": [c for c in caught.split(",") if c],
        "missed_by_first_version_of": [c for c in missed.split(",") if c],
        "note": note}
json.dump(meta, open(os.path.join(d, "meta.json"), "w"), indent=1)
print("stored", d)
