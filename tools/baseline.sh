#!/bin/bash
# Runs the repository's pinned test suite (guard MODELX_VERIF off) and compares with BASELINE.json stable_pass.
unset MODELX_VERIF
OUT=$(mktemp -d /tmp/mxbase.XXXXXX)
cd /repo && /venv/bin/python -m pytest -ra -q -p no:cacheprovider --timeout=900 --continue-on-collection-errors -n 8 --junitxml=$OUT/j.xml > $OUT/log 2>&1
tail -1 $OUT/log
python3 - $OUT/j.xml <<'PY'
import sys, json, xml.etree.ElementTree as ET
base = json.load(open('/root/.vp/BASELINE.json'))
want = set(base['stable_pass'])
passed = set()
for tc in ET.parse(sys.argv[1]).getroot().iter('testcase'):
    if not any(ch.tag in ('failure', 'error', 'skipped') for ch in tc):
        passed.add(tc.get('classname') + '::' + tc.get('name'))
missing = sorted(want - passed)
print("stable_pass=%d passed_now=%d missing=%d" % (len(want), len(passed), len(missing)))
for m in missing[:20]: print("  MISSING", m)
sys.exit(1 if missing else 0)
PY
rc=$?
rm -rf $OUT
exit $rc
