#!/usr/bin/env python3
"""Regenerates /verif/MANIFEST.json from the table below (single source of truth)."""
import json, os, importlib.util
HERE = os.path.dirname(os.path.dirname(os.path.abspath(__file__)))

# id -> (level category, technique, level text, level note, design ref)
CHECKS = {
 "C16": ("exploration",
         "bounded-exhaustive enumeration of all DAGs x target sets x step sizes on the real implementation",
         "Every DAG on <=4 (thorough: 5) elements in two encodings, with input and uncached variants, every "
         "non-empty target set listed in every order (up to 3 targets, ascending/descending beyond) and every step size 1..n+1 is run through generate_actions/execute_actions of the "
         "real code; each run is judged on target values, leftover values, recomputation (formula-start log) and "
         "plan well-formedness. Exhaustive inside these bounds, nothing sampled.",
         "Trusted: CPython 3.12, networkx, the tick() formula-start log, the closed-form reference values. "
         "Bounds: n<=4/5 elements, clean start, cached targets.",
         "DESIGN.md section 2 C16"),
 "C02": ("model_checking",
         "explicit-state BFS over edit/evaluation histories of the real implementation, differential oracle live vs edits-only twin",
         "Every interleaving of <=3 (thorough: 4) edit and evaluation operations over the alphabets of 14 root models "
         "(one per kind of dependency path: by-name reference, attribute path, _space/_model, object-valued reference, "
         "inheritance incl. two bases defining one name, ItemSpace, ItemSpaces of a sub, parameter formula, recursion, built-in "
         "shadowing, space-valued reference, shadowed model-level reference read by attribute path, chains through two uncached "
         "levels), from the cold state and from the state in which every probe was evaluated, is replayed on the real "
         "implementation; after each history all probe queries must equal those of a fresh model to which only the edits were "
         "applied - literally the statement; an edit accepted by that model must be accepted by the live one; where the reference "
         "model defines the edited model the twin must equal the reference evaluator. Edits include recalc mode, copy and "
         "sort of cells. States are merged by a canonical session state (definitions, held values, input marks, lazy freshness "
         "bits, graphs).",
         "Trusted: the edits-only twin (same implementation, checked absolutely by C01), canonical-state merging "
         "(can hide only bugs depending on dict orders/weak caches), CPython 3.12. Bounds: depth, alphabets in mxmc/evalfam.py.",
         "DESIGN.md section 2 C02"),
 "C01": ("model_checking",
         "explicit-state BFS over request orders on the real implementation, reference evaluator + formula-start log as oracle",
         "All assignments of terminating formula templates to 4 cells (126 programs quick, 700 thorough) x BFS over the order "
         "in which 9 elements are requested (depth 3/4, states merged by held set), each request issued in a rotating spelling "
         "and every other spelling (positional, keyword, defaults, subscription, .value, attribute) checked as an alias. Values "
         "are compared with an uncached reference evaluator; the tick() log proves no held element runs again and no element "
         "runs twice.",
         "Trusted: mxmc/refsem.py reference evaluator (shares only formula source text), tick() log, CPython. Bounds: argument "
         "values 0..1, depth, template menu in mxmc/drivers/c01.py.",
         "DESIGN.md section 2 C01"),
 "C05": ("fault_enumeration",
         "exhaustive fault-point enumeration: BFS over arm/disarm/query histories on the real implementation, every element a failure point",
         "All DAG shapes on <=3 (thorough 4) elements written as def formulas, with uncached subsets, plus recursion, a catching "
         "formula, lambdas/comprehensions, an ItemSpace shape (cells-level allow_none differing from the space's) and a shape in "
         "which allow_none of cells / spaces is edited between evaluations; every element (and the ItemSpace node) x 5 exception kinds "
         "(ValueError, custom Exception, ZeroDivisionError, custom BaseException, returning None) is armed in BFS histories of "
         "arm/disarm/query (depth 4/5, 1/2 faults). Oracle: reference evaluation with the same faults and held set; FormulaError "
         "wraps the very exception object; no element of the failing chain holds a value; completed ones keep values; executor "
         "idle; graph == cache; retries give reference values. Recursion limit: limits 1..40 (66) x all lengths 0..limit+2, "
         "limits 1000/10000(/100000) in subprocesses.",
         "Trusted: tick() fault injection at formula start, mxmc/refsem.py, CPython. Boundary lengths limit/limit+1 accepted either way.",
         "DESIGN.md section 2 C05"),
 "C06": ("model_checking",
         "explicit-state BFS over value-edit histories on all small DAGs, reference call trees as oracle",
         "All DAGs on <=3 (thorough 4) elements in two encodings with uncached subsets x recalc option off/on; BFS (depth 4/3; "
         "thorough 5/4) over query / assign / overwrite / clear_at / clear / clear_all / del value / reference change. After each "
         "edit the held set must equal held-before minus exactly the elements whose reference call tree contains the edited "
         "element; kept elements are served with zero formula starts and reference values; inputs persist; with recalc on the "
         "discarded dependents are recomputed at once to reference values and nothing else starts.",
         "Trusted: mxmc/refsem.py call trees, tick() log. Static control flow in generated formulas.",
         "DESIGN.md section 2 C06"),
 "C08": ("model_checking",
         "explicit-state BFS over edit/evaluation histories on the real implementation; preds/succs/precedents vs reference call trees",
         "Same histories as C02 (depth 3/4 over 14 roots, cold and warm). After every history, for every held element: preds() == cached elements "
         "the reference evaluation calls directly or through uncached cells + those uncached cells; succs() is the inverse; "
         "precedents() contains every reference read by attribute path; key-carrying graph nodes == held elements + live "
         "ItemSpaces; acyclic; no node of a deleted object.",
         "Trusted: mxmc/refsem.py, ops.apply_ref tracking of definitions (histories it does not define are judged on graph clauses only).",
         "DESIGN.md section 2 C08"),
 "C09": ("model_checking",
         "explicit-state BFS over edit/evaluation histories under every cached-flag assignment, differential oracle vs all-cached twin",
         "For each of 14 roots, every assignment with <=2 uncached cells (thorough: all 2^n) x BFS over edit/eval histories incl. "
         "flag changes at any point (depth 2/3): the sequence of values / exception types of all evaluations and of the final "
         "probe-all equals that of the all-cached twin; uncached cells hold nothing, run on every call, accept unhashable arguments.",
         "Trusted: the all-cached twin (same implementation; C01/C02 check it absolutely). Histories assigning values to a cells that is "
         "uncached at some point are not compared (documented behavioural difference).",
         "DESIGN.md section 2 C09"),
 "C14": ("fault_enumeration",
         "exhaustive crash-point enumeration: every audited file-system operation / write / pickle dump of a save or load as failure point",
         "Corpus of models x {directory, zip} x save histories gen1..gen_n; two-pass: count the N fault points of the last "
         "operation fault-free, then re-run once per point (raise-before, torn write/dump/rmtree, PermissionError in copy_file, EXDEV "
         "answer for the final move). Oracle: newest complete generation intact at path or _BAK1, backups ordered, zip destination "
         "never partial, session clean and usable after failed saves and loads (every point of read_model, missing/truncated files); "
         "the fault-free save that follows every failed one must keep the complete generations in _BAK1.._BAK3, most recent first.",
         "Trusted: CPython audit events (open, os.rename, os.mkdir, os.remove, os.rmdir, os.scandir, shutil.*), wrapped file writes and "
         "pickler dumps as the set of failure points; byte-wise generation digests.",
         "DESIGN.md section 2 C14"),
 "C17": ("fault_enumeration",
         "exhaustive fault-point enumeration with histories of handled and unhandled failures; reference stack + line numbers as oracle",
         "Shapes with calls on known lines (def formulas), lambdas/comprehensions/generator expressions, uncached links, ItemSpace, a "
         "formula that catches a callee's failure, small recursion limit, and the session's error-reporting modes (FormulaError / "
         "original exception raised / error printed); BFS over arm/disarm/query (depth 4/5, up to 2 armed "
         "faults) so every failure is preceded by successes, handled failures and unhandled failures. get_traceback() must list "
         "exactly the reference evaluator's stack at the moment the exception escaped, with the reference's line numbers, and "
         "get_error() must be the injected exception.",
         "Trusted: mxmc/refsem.py (stack and traceback line numbers of the same source text), tick() fault injection.",
         "DESIGN.md section 2 C17"),
 "C03": ("model_checking",
         "explicit-state BFS over member/base edits from ALL linearisable ordered-base DAGs on 3 spaces; CPython C3 + reference derivation + from-scratch differential as oracle",
         "Roots: all 28 ordered-base DAGs on 3 top-level spaces that have a C3 linearisation x all 8 placements of a cells name x all "
         "8 placements of a reference name, warm variants (all cells evaluated before and between edits), a space with three ordered "
         "bases, and 309 five-space DAGs in which a space is reachable from an ancestor by paths of different lengths. BFS over "
         "new/delete/redefine/rename cells, set/delete reference, add/remove base, new space with ordered bases, delete space, "
         "cached-flag toggle (depth 1 everywhere, 2 on sparse roots; thorough 2/3). After every op (a rejected one must leave the "
         "derivation from the unchanged definitions), for every space: bases == type().__mro__ of CPython, members == reference derivation, derived copies "
         "carry the first definer's formula/value/flag, derived flags, evaluation with names resolved in the sub, and the "
         "whole view == a model constructed from scratch out of the reference definitions.",
         "Trusted: CPython's C3, mxmc/refsem.py derivation, ops.apply_ref. Only ops the reference deems well-formed are generated (C11 "
         "covers rejections).",
         "DESIGN.md section 2 C03"),
 "C04": ("exploration",
         "bounded-exhaustive enumeration of models over a construct x attribute cross product, write/read differential",
         "One focus construct (cells, reference, doc, parameter formula + ItemSpace inputs next to child / base / model references, "
         "inheritance shape, allow_none, prefix-related names) taken over "
         "the full cross product of its attributes, in several contexts, written to a directory and to a zip and read back (thorough: "
         "write-read-write-read chains, cold/warm): public description before == after, reference modes, values of all probes, "
         "readable, source untouched, zip members == directory files.",
         "Trusted: the description extractor (public API), NaN-aware equality. Not compared: model name, path, dict orders, ItemSpace auto names.",
         "DESIGN.md section 2 C04"),
 "C07": ("model_checking",
         "explicit-state BFS over instantiate / evaluate / input / discard / base-edit histories with a table of all handles",
         "10 roots (parameter signatures (i), (i, j=0), (); formulas returning None, extra refs, another base, _self; child space; nested "
         "parametrised child, also with the same parameter name; inherited and grand-child structures) x BFS depth 3/2 (thorough 4/3), histories not merged because every handle ever obtained is part of the "
         "state. Oracle: reference evaluator for values in instances, `is`-identity of instances for all argument spellings that bind "
         "equally, live == fresh-model-with-edits-only, old handles raise DeletedObjectError on every probe or are the current instance.",
         "Trusted: mxmc/refsem.py ItemSpace semantics; the reference `value` clause applies to edit-free histories, edits are judged by the "
         "live==fresh differential.",
         "DESIGN.md section 2 C07"),
 "C10": ("model_checking",
         "explicit-state BFS from all (mode x target placement x definer x construction order) roots; closed-form binding rule as oracle",
         "84 roots: 3 modes x target in {definer, its cells, descendant space, cells in a descendant, outside space/cells, outside "
         "space with the definer's name as string prefix} x definer {top-level, nested} x {reference before/after the subs exist}. "
         "Histories depth 2 (3): re-point, change mode, delete, remove/add base, discard/re-instantiate, new cells, write+read (dir "
         "and zip). Derivers checked in every state: sub, sub of sub, ItemSpace of the definer (two args), ItemSpace of a sub, child "
         "of an ItemSpace; reported refmode; bindings after write/read.",
         "Only what the statement fixes is judged (descendant targets under static derivation and relative references without a "
         "relative counterpart - documented to be an error - are not).",
         "DESIGN.md section 2 C10"),
 "C11": ("model_checking",
         "exhaustive application of a catalogue of invalid operations in every root state and every state one valid op away",
         "States: all 28 linearisable DAGs x member placements (+ extras: input, non-scalar, uncached, child space, scalar input) "
         "and the states one structural op away. In each state every applicable invalid op of the catalogue (invalid names x 9 "
         "operations, name clashes in the space and in subs, cyclic / non-linearisable bases via add_bases and new_space, relative "
         "references that cannot be rebound, delete/rename derived members, malformed formulas, unassignable values, non-bases, "
         "missing members, names taken from the definition, three-valued allow_none with existing inputs, source-less functions; "
         "roots hold inputs in defined and in derived cells). Raises => public description, all values, self-checks identical to before. Accepted => base relation "
         "acyclic + CPython-C3 linearisable, names valid identifiers.",
         "Trusted: the description extractor; CPython C3. Nothing is demanded about which ops are rejected beyond well-formedness.",
         "DESIGN.md section 2 C11"),
 "C12": ("model_checking",
         "explicit-state BFS over clash-seeking member/base edit histories (rejections allowed); container/namespace invariants in every state",
         "7 roots x alphabet of ~55 ops using the same two names as cells / reference / child space in different spaces, base changes, "
         "model references vs space names, parameter names vs members; depth 3 (2 on four roots; thorough 4). Every static and dynamic "
         "space in every state: one kind per name; dir(), getattr and the globals seen by a probe formula == cells + refs + child "
         "spaces, each bound to the container's object; a space-level reference hides the model-level one of its name in the space "
         "and in the dynamic spaces built from it; mxsys._check_sanity() and model._impl._check_sanity() pass.",
         "Precedence between a member and a model-level reference / parameter of the same name is not fixed by the statement: either "
         "resolution is accepted.",
         "DESIGN.md section 2 C12"),
 "C13": ("model_checking",
         "explicit-state BFS over deletion triggers and evaluations with a table of every handle ever seen",
         "One model with inheritance, child spaces, parametrised spaces (own ItemSpaces, ItemSpaces with another base, nested child), "
         "object-valued references; 26 edits (every way a deletion can be triggered, a partial clear) + 12 evaluations, all histories "
         "to depth 3 (4) from the cold state and to depth 2 (3) from the state in which everything was evaluated, not merged. After every history: unreachable handles raise DeletedObjectError on every probe (attribute, call, "
         "subscription, edit); reachable ones do not; no bases list / graph node / preds-succs listing mentions a dead object; "
         "static objects == those of a fresh model that replayed the edits; values live == fresh.",
         "Trusted: reachability through public containers as definition of 'deleted', cross-checked with the fresh model.",
         "DESIGN.md section 2 C13"),
 "C15": ("exploration",
         "bounded-exhaustive enumeration of programs in the documented export subset; differential package (modelx import blocked) vs model",
         "Programs = structure (16) x context/form (72) x name-use atom (56) x cached flags (4), slices of the product per tier "
         "(2750 quick / ~33000 thorough); every model is exported, the packages are imported in subprocesses in which importing "
         "modelx raises, and every cells x arguments (incl. ItemSpace instances, nested) is compared: same value, cached == uncached, "
         "no modelx in sys.modules, export/import does not raise.",
         "Trusted: the program generator stays inside the documented subset (limitations section of export_model); queries on which the "
         "model itself raises are not judged.",
         "DESIGN.md section 2 C15"),
 "C20": ("exploration",
         "grammar-exhaustive enumeration of function texts (form x name x params x docstring x comment x body x indentation)",
         "Cross product of 14 forms (source text and function objects from a real module file, decorators, lambdas embedded in "
         "assignments/calls, @defcells) x parameters x docstrings x comment positions x bodies (incl. nested defs, lambdas, classes, "
         "decorated nested defs / methods) x indentation (16422 texts quick, ~140000 thorough); function objects come from one module "
         "file per worker that is rewritten for every text. Clauses: behaves like the plain function with globals bound in the space; formula.source is a self-contained "
         "definition under the cells' name; new_cells(source) reproduces source and behaviour; rename changes only the name; doc "
         "replacement (9 doc classes) changes only the docstring.",
         "Trusted: CPython compiling the generator's canonical text as reference function; token-based source comparison.",
         "DESIGN.md section 2 C20"),
 "C18": ("model_checking",
         "explicit-state BFS over IOSpec lifecycle histories on two models; reference bookkeeping by value identity as oracle",
         "Root: model M1 (space A with a scalar and a non-scalar cells, sub B(A)) and model M2. Alphabet: new_pandas on 6 slots + "
         "clashing names (csv; thorough: excel sheets, module, alias spellings of a path), plain assignment / re-binding, deletion "
         "of references, update_pandas(old, None|fresh|other), add/remove base, delete space, close. BFS depth 3 (thorough 4 csv / 3 "
         "full), states merged by canonical session state with a merge audit. Every state: both views of the model's specs "
         "(model.iospecs and the IO manager) == specs whose value is bound to >= 1 reference (by object identity); rejected creations "
         "leave nothing; closed models leave nothing; no two specs share a location; self-checks; write/read of every distinct IO "
         "configuration gives equal values.",
         "Trusted: pandas equality, the harness's identity-based reference model. update_module / absolute paths / new_excel_range not in the alphabet.",
         "DESIGN.md section 2 C18"),
 "C19": ("model_checking",
         "explicit-state BFS over registry histories (new_model / read_model / rename / close / edits) with handles to every model",
         "Alphabet: new_model(None|X|Y|X_BAK1|Model2), read_model of a saved model (plain, name=, two corrupted trees failing midway), "
         "rename(to, rename_old in {F,T}; incl. invalid names), close (incl. a stale handle), edits, cross-model reference, query; <=3 (4) models per history; depth 4 (thorough 5). "
         "Every state: mx.get_models() maps exactly each open handle's current name to it, names unique, nothing dropped on "
         "collisions (backup suffix), close removes exactly that model, descriptions of untouched models unchanged, values of models "
         "without a reference into the edited one unchanged.",
         "Trusted: description extractor; namer counters are part of the canonical state. A refused rename is accepted as either no-op or backup-rename.",
         "DESIGN.md section 2 C19"),
}
NOT_BUILT = {}

def main():
    props = [json.loads(l)["id"] for l in open(os.path.join(HERE, "properties.jsonl"))]
    checks = []
    for pid in props:
        if pid not in CHECKS:
            continue
        cat, tech, text, note, ref = CHECKS[pid]
        checks.append({
            "property_id": pid,
            "quick_cmd": "./check %s --tier quick" % pid,
            "thorough_cmd": "./check %s --tier thorough" % pid,
            "evidence_file": "/verif/evidence/%s.json" % pid,
            "replay_cmd_template": "./check %s --replay {path}" % pid,
            "engine": "mxmc",
            "level_claimed": {"category": cat, "text": text, "design_ref": ref},
            "level_note": note,
            "technique": tech,
        })
    na = [{"property_id": p, "reason": NOT_BUILT.get(p, "check not built yet in this session (planned, see DESIGN.md section 2); not claimed until its driver exists")}
          for p in props if p not in CHECKS]
    man = {
        "version": 1,
        "setup_cmd": "/venv/bin/python -c \"import sys; sys.path.insert(0,'/verif'); sys.path.insert(0,'/repo'); import mxmc.core, mxmc.session; print('mxmc ok')\"",
        "hooks": {
            "guard": "MODELX_VERIF",
            "enable": "no source hooks are needed: checks import modelx from /repo's working tree (sys.path[0]=/repo) and observe it through public API, a model-level tick() reference, and audit hooks; ./check exports MODELX_VERIF=1 for symmetry",
            "baseline_off_cmd": "cd /repo && /venv/bin/python -m pytest -ra -q -p no:cacheprovider --timeout=900 --continue-on-collection-errors",
            "source_commits": [],
            "add_only": True,
        },
        "engines": [{"name": "mxmc", "path": "/verif/mxmc",
                     "serves_properties": [c["property_id"] for c in checks],
                     "kind_free_text": "hand-written explicit-state / bounded-exhaustive explorer over the real modelx implementation (Python), fork pool of 16 workers, reference models as oracles"}],
        "checks": checks,
        "not_applicable": na,
        "notes": "All checks are decided by exhaustive enumeration within stated bounds on the real implementation (model checking family). See DESIGN.md.",
    }
    with open(os.path.join(HERE, "MANIFEST.json"), "w") as f:
        json.dump(man, f, indent=1)
    print("MANIFEST.json: %d checks, %d not_applicable" % (len(checks), len(na)))

if __name__ == "__main__":
    main()
