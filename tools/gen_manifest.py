#!/usr/bin/env python3
"""Regenerates /verif/MANIFEST.json from the table below (single source of truth)."""
import json, os, importlib.util
HERE = os.path.dirname(os.path.dirname(os.path.abspath(__file__)))

# id -> (level category, technique, level text, level note, design ref)
CHECKS = {
 "C16": ("exploration",
         "bounded-exhaustive enumeration of all DAGs x target sets x step sizes on the real implementation",
         "Every DAG on <=4 (thorough: 5) elements in two encodings, with input and uncached variants, every "
         "non-empty target set and every step size 1..n+1 is run through generate_actions/execute_actions of the "
         "real code; each run is judged on target values, leftover values, recomputation (formula-start log) and "
         "plan well-formedness. Exhaustive inside these bounds, nothing sampled.",
         "Trusted: CPython 3.12, networkx, the tick() formula-start log, the closed-form reference values. "
         "Bounds: n<=4/5 elements, clean start, cached targets.",
         "DESIGN.md section 2 C16"),
 "C02": ("model_checking",
         "explicit-state BFS over edit/evaluation histories of the real implementation, differential oracle live vs edits-only twin",
         "Every interleaving of <=3 (thorough: 4) edit and evaluation operations over the alphabets of 10 root models "
         "(one per kind of dependency path: by-name reference, attribute path, _space/_model, object-valued reference, "
         "inheritance, ItemSpace, parameter formula, recursion, built-in shadowing, space-valued reference) is replayed on "
         "the real implementation; after each history all probe queries must equal those of a fresh model to which "
         "only the edits were applied - literally the statement. States are merged by a canonical session state.",
         "Trusted: the edits-only twin (same implementation, checked absolutely by C01), canonical-state merging "
         "(can hide only bugs depending on dict orders/weak caches), CPython 3.12. Bounds: depth, alphabets in mxmc/evalfam.py.",
         "DESIGN.md section 2 C02"),
}
NOT_BUILT = {}

def main():
    props = [json.loads(l)["id"] for l in open(os.path.join(HERE, "properties.jsonl"))]
    checks = []
    for pid in props:
        if pid not in CHECKS:
            continue
        cat, tech, text, note, ref = CHECKS[pid]
        checks.append({
            "property_id": pid,
            "quick_cmd": "./check %s --tier quick" % pid,
            "thorough_cmd": "./check %s --tier thorough" % pid,
            "evidence_file": "/verif/evidence/%s.json" % pid,
            "replay_cmd_template": "./check %s --replay {path}" % pid,
            "engine": "mxmc",
            "level_claimed": {"category": cat, "text": text, "design_ref": ref},
            "level_note": note,
            "technique": tech,
        })
    na = [{"property_id": p, "reason": NOT_BUILT.get(p, "check not built yet in this session (planned, see DESIGN.md section 2); not claimed until its driver exists")}
          for p in props if p not in CHECKS]
    man = {
        "version": 1,
        "setup_cmd": "/venv/bin/python -c \"import sys; sys.path.insert(0,'/verif'); sys.path.insert(0,'/repo'); import mxmc.core, mxmc.session; print('mxmc ok')\"",
        "hooks": {
            "guard": "MODELX_VERIF",
            "enable": "no source hooks are needed: checks import modelx from /repo's working tree (sys.path[0]=/repo) and observe it through public API, a model-level tick() reference, and audit hooks; ./check exports MODELX_VERIF=1 for symmetry",
            "baseline_off_cmd": "cd /repo && /venv/bin/python -m pytest -ra -q -p no:cacheprovider --timeout=900 --continue-on-collection-errors",
            "source_commits": [],
            "add_only": True,
        },
        "engines": [{"name": "mxmc", "path": "/verif/mxmc",
                     "serves_properties": [c["property_id"] for c in checks],
                     "kind_free_text": "hand-written explicit-state / bounded-exhaustive explorer over the real modelx implementation (Python), fork pool of 16 workers, reference models as oracles"}],
        "checks": checks,
        "not_applicable": na,
        "notes": "All checks are decided by exhaustive enumeration within stated bounds on the real implementation (model checking family). See DESIGN.md.",
    }
    with open(os.path.join(HERE, "MANIFEST.json"), "w") as f:
        json.dump(man, f, indent=1)
    print("MANIFEST.json: %d checks, %d not_applicable" % (len(checks), len(na)))

if __name__ == "__main__":
    main()
