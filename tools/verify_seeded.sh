#!/bin/bash
# Re-verifies every stored seeded change against the current /repo HEAD: the patch applies, the demo fails with it,
# and the first check listed in meta.json "caught_by" reports a violation (quick tier, scratch worktree).
# usage: [APPLY_ONLY=1] tools/verify_seeded.sh [Sxx ...]   (default: all; APPLY_ONLY: patch applies + demo fails)
cd /verif
ids="$@"; [ -z "$ids" ] && ids=$(ls seeded)
for sid in $ids; do
  d=seeded/$sid
  chk=$(python3 -c "import json;print(json.load(open('$d/meta.json'))['caught_by'][0])")
  WT=$(mktemp -d /tmp/mxver.XXXXXX); OUT=$(mktemp -d /tmp/mxverout.XXXXXX)
  git -C /repo worktree add -q --detach $WT HEAD
  if ! git -C $WT apply /verif/$d/patch.diff 2>/dev/null; then echo "$sid PATCH-DOES-NOT-APPLY"; git -C /repo worktree remove --force $WT; rm -rf $OUT; continue; fi
  (cd $WT && PYTHONPATH=$WT /venv/bin/python /verif/$d/demo.py > $OUT/demo.log 2>&1); drc=$?
  if [ -n "$APPLY_ONLY" ]; then echo "$sid applies demo_rc=$drc"; git -C /repo worktree remove --force $WT; rm -rf $OUT; continue; fi
  MXMC_REPO=$WT MXMC_SCRATCH_OUT=$OUT VERIF_NO_GATE=1 /verif/check $chk > $OUT/chk.log 2>&1; rc=$?
  echo "$sid demo_rc=$drc $chk rc=$rc violations=$(grep -c '^VIOLATION' $OUT/chk.log)"
  git -C /repo worktree remove --force $WT; rm -rf $OUT
done
