#!/bin/bash
# validate MANIFEST.json and all evidence files against the given schemas (tooling venv has jsonschema)
cd /verif
python3-vt - <<'PY'
import json, jsonschema, glob, sys
ms = json.load(open('/root/.vp/MANIFEST.schema.json')); es = json.load(open('/root/.vp/EVIDENCE.schema.json'))
jsonschema.validate(json.load(open('MANIFEST.json')), ms); print("MANIFEST ok")
bad = 0
for f in sorted(glob.glob('evidence/*.json')):
    try:
        jsonschema.validate(json.load(open(f)), es); print(f, "ok")
    except Exception as e:
        bad += 1; print(f, "INVALID", str(e)[:300])
sys.exit(1 if bad else 0)
PY
