#!/bin/bash
# usage: tools/confirm_seeded.sh <patch.diff> <demo.py> <check ids...>
# Confirms a seeded change in a scratch worktree of /repo: the demo passes on the clean tree and fails with the
# patch, the pinned test-suite result is unchanged (same stable-pass set as the clean worktree), and runs the
# given quick checks against the patched worktree.  Never touches /repo's working tree.
PATCH=$(realpath $1); DEMO=$(realpath $2); shift; shift
WT=$(mktemp -d /tmp/mxconf.XXXXXX); OUT=$(mktemp -d /tmp/mxconfout.XXXXXX)
git -C /repo worktree add -q --detach $WT HEAD || exit 2
(cd $WT && PYTHONPATH=$WT /venv/bin/python $DEMO > $OUT/demo_clean.log 2>&1); echo "demo on clean tree: rc=$? ($(tail -1 $OUT/demo_clean.log | cut -c1-80))"
if ! git -C $WT apply $PATCH; then echo "PATCH DOES NOT APPLY"; git -C /repo worktree remove --force $WT; rm -rf $OUT; exit 2; fi
(cd $WT && PYTHONPATH=$WT /venv/bin/python $DEMO > $OUT/demo_patched.log 2>&1); echo "demo on patched tree: rc=$? ($(tail -1 $OUT/demo_patched.log | cut -c1-80))"
echo "tests on patched tree: $(/tmp/mxtools/baseline_wt.sh $WT 2>&1 | tr '\n' ' ' | cut -c1-300)"
for p in "$@"; do
  s=$(date +%s)
  MXMC_REPO=$WT MXMC_SCRATCH_OUT=$OUT VERIF_NO_GATE=1 /verif/check $p --tier ${TIER:-quick} > $OUT/$p.log 2>&1; rc=$?
  e=$(date +%s)
  nv=$(grep -c '^VIOLATION' $OUT/$p.log)
  echo "$p rc=$rc violations=$nv $((e-s))s | $(grep -m1 -A1 '^VIOLATION' $OUT/$p.log | tail -1 | cut -c1-200)"
  [ $rc -eq 2 ] && tail -5 $OUT/$p.log
done
git -C /repo worktree remove --force $WT; rm -rf $OUT
