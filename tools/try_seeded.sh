#!/bin/bash
# usage: tools/try_seeded.sh <patch file> <check ids...>
# Applies the patch to a scratch worktree of /repo (never to /repo itself), runs the given quick checks against it
# with evidence/replays redirected to a scratch directory, prints one line per check, removes the worktree.
PATCH=$(realpath $1); shift
WT=$(mktemp -d /tmp/mxseed.XXXXXX); OUT=$(mktemp -d /tmp/mxseedout.XXXXXX)
git -C /repo worktree add -q --detach $WT HEAD || exit 2
if ! git -C $WT apply $PATCH; then echo "PATCH DOES NOT APPLY"; git -C /repo worktree remove --force $WT; rm -rf $OUT; exit 2; fi
for p in "$@"; do
  s=$(date +%s)
  MXMC_REPO=$WT MXMC_SCRATCH_OUT=$OUT VERIF_NO_GATE=1 /verif/check $p --tier ${TIER:-quick} > $OUT/$p.log 2>&1; rc=$?
  e=$(date +%s)
  nv=$(grep -c '^VIOLATION' $OUT/$p.log)
  echo "$p rc=$rc violations=$nv $((e-s))s | $(grep -m1 -A1 '^VIOLATION' $OUT/$p.log | tail -1 | cut -c1-220)"
done
git -C /repo worktree remove --force $WT; rm -rf $OUT
