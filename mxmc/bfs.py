"""Explicit-state breadth-first search over operation histories of the real implementation.

A state is the history reaching it (live modelx objects cannot be copied): every history is
replayed on a fresh world.  Histories reaching the same canonical state are merged; violating
states are terminal.
"""
import json
import hashlib


def _h(o):
    return hashlib.sha1(json.dumps(o, sort_keys=True, default=repr).encode()).hexdigest()


class Result:
    def __init__(self):
        self.states = 0
        self.transitions = 0
        self.merged = 0
        self.violations = []
        self.outcomes = set()
        self.samples = []
        self.depth_done = 0
        self.counts = {}

    def count(self, k, n=1):
        self.counts[k] = self.counts.get(k, 0) + n

    def as_item_result(self):
        c = dict(self.counts)
        c.update(states=self.states, transitions=self.transitions, merged=self.merged)
        return {"counts": c, "outcomes": sorted(self.outcomes), "samples": self.samples,
                "violations": self.violations, "extra": {"depth_done": self.depth_done}}


def explore(run_history, enabled, depth, prefix=(), merge=True, max_violations=25, result=None):
    """run_history(hist) -> (canon_obj, violations, outcome_digest, info)
         executes hist on a fresh world and judges it (all clauses, after every op if the driver
         wants that); ``info`` is passed to ``enabled``.
       enabled(hist, info) -> list of ops to append.
       prefix: ops already fixed for this work item (the item explores its subtree).
    """
    res = result or Result()
    prefix = list(prefix)
    canon, viols, outcome, info = run_history(prefix)
    res.transitions += len(prefix)
    res.states += 1
    res.outcomes.add(outcome)
    seen = {_h(canon)}
    if viols:
        res.violations.extend(viols)
        return res
    frontier = [(prefix, info)]
    for d in range(len(prefix) + 1, depth + 1):
        nxt = []
        for hist, info in frontier:
            for op in enabled(hist, info):
                h2 = hist + [op]
                canon, viols, outcome, info2 = run_history(h2)
                res.transitions += 1
                res.outcomes.add(outcome)
                if viols:
                    if len(res.violations) < max_violations:
                        res.violations.extend(viols[:3])
                    continue
                k = _h(canon)
                if merge and k in seen:
                    res.merged += 1
                    continue
                seen.add(k)
                res.states += 1
                if len(res.samples) < 2 and len(h2) >= 2:
                    res.samples.append(h2)
                nxt.append((h2, info2))
        frontier = nxt
        res.depth_done = d
        if not frontier:
            break
    return res
