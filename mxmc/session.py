"""Session control: fresh worlds, observation helpers, formula-start log / fault injection,
public descriptions and canonical states of the *real* modelx session.

Nothing in here patches modelx source; everything goes through public API or reads
``modelx.core.mxsys`` state.
"""
import sys
import math
import types
import hashlib
import json
import warnings

import modelx as mx
from modelx.core.system import mxsys, NonThreadedExecutor
from modelx.core.util import AutoNamer
from modelx.core.base import Interface
from modelx.core.errors import FormulaError, DeletedObjectError
from modelx.io.baseio import IOManager

warnings.filterwarnings("ignore")
# modelx replaces warnings.showwarning by a function printing to stderr; silence it.
warnings.showwarning = lambda *a, **k: None

DEFAULT_MAXDEPTH = mxsys.callstack.maxdepth


# --------------------------------------------------------------------------------------
# world reset

def reset_world():
    """Return the process-global modelx session to its initial state."""
    for impl in list(mxsys.models.values()):
        try:
            impl.interface.close()
        except BaseException:
            pass
    mxsys._models.clear()
    mxsys.currentmodel = None
    ex = NonThreadedExecutor()
    ex.excinfo = None
    mxsys.executor = ex
    mxsys.callstack = ex.callstack
    mxsys.refstack = ex.refstack
    mxsys._modelnamer = AutoNamer("Model")
    mxsys._backupnamer = AutoNamer("_BAK")
    mxsys.serializing = None
    mxsys._recalc_dependents = False
    mxsys.iomanager = IOManager()
    warnings.showwarning = lambda *a, **k: None
    TICK.reset()


def executor_quiescent():
    """The executor state that must hold between top-level calls."""
    ex = mxsys.executor
    return {
        "is_executing": bool(ex.is_executing),
        "callstack": len(mxsys.callstack),
        "idxstack": len(mxsys.callstack.idxstack),
        "refstack": len(mxsys.refstack),
        "counter": mxsys.callstack.counter,
    }


QUIESCENT = {"is_executing": False, "callstack": 0, "idxstack": 0, "refstack": 0, "counter": 0}


# --------------------------------------------------------------------------------------
# tick(): formula-start log and fault injection (a model-level reference that every generated
# formula calls first).

class InjectedError(Exception):
    """Custom exception kind used as an injected fault."""


class InjectedBase(BaseException):
    """Custom BaseException subclass used as an injected fault."""


FAULT_KINDS = {
    "ValueError": lambda: ValueError("injected"),
    "Custom": lambda: InjectedError("injected"),
    "ZeroDiv": lambda: ZeroDivisionError("injected"),
    "Base": lambda: InjectedBase("injected"),
    "KeyError": lambda: KeyError("injected"),
}


def node_name(node):
    """(fullname-without-model, key) of an executor node; robust to broken objects."""
    obj = node[0]
    try:
        nm = obj.get_repr(fullname=True, add_params=False)
        nm = nm.split(".", 1)[1] if "." in nm else nm
    except BaseException as e:  # pragma: no cover
        nm = "BROKEN:" + type(e).__name__
    key = node[1] if len(node) > 1 else None
    return (nm, json.dumps(render(key)))


class Ticker:
    """Harness function bound as model reference ``tick``.

    ``tick()`` returns 0.  It logs the executing node (read from the executor's call stack)
    and raises the armed exception if that node is armed.
    """

    def __init__(self):
        self.reset()

    def reset(self):
        self.log = []          # [(name, key)] formula starts
        self.armed = {}        # (name, key) -> kind ; name may also be armed for any key with key None
        self.fired = []        # [(name,key), kind, exc, stack snapshot]
        self.enabled = True

    def __call__(self):
        if not self.enabled:
            return 0
        cs = mxsys.callstack
        if not cs:
            return 0
        node = node_name(cs[-1])
        self.log.append(node)
        kind = self.armed.get(node)
        if kind is None:
            kind = self.armed.get((node[0], None))
        if kind is not None:
            exc = FAULT_KINDS[kind]()
            self.fired.append((node, kind, exc, [node_name(n) for n in cs]))
            raise exc
        return 0

    def take_log(self):
        log, self.log = self.log, []
        return log

    # pickling a model that references tick (C04/C14) must work: pickle by reference
    def __reduce__(self):
        return (_get_tick, ())


def _get_tick():
    return TICK


TICK = Ticker()


# --------------------------------------------------------------------------------------
# observations

def render(v, depth=0):
    """JSON-able, id()-free rendering of a value."""
    if v is None or isinstance(v, (bool, int, str)):
        return v
    if isinstance(v, float):
        if math.isnan(v):
            return "float:nan"
        if math.isinf(v):
            return "float:inf" if v > 0 else "float:-inf"
        return v
    if isinstance(v, Interface):
        try:
            if not v._is_valid():
                return "<deleted %s>" % type(v).__name__
            return "<%s %s>" % (type(v).__name__, v._evalrepr.split(".", 1)[-1] if "." in v._evalrepr else "")
        except BaseException as e:
            return "<BROKEN:%s>" % type(e).__name__
    if depth > 6:
        return "<deep>"
    if isinstance(v, tuple):
        return ["tuple"] + [render(x, depth + 1) for x in v]
    if isinstance(v, list):
        return ["list"] + [render(x, depth + 1) for x in v]
    if isinstance(v, (set, frozenset)):
        return ["set"] + sorted((render(x, depth + 1) for x in v), key=repr)
    if isinstance(v, dict):
        return ["dict"] + sorted(([render(k, depth + 1), render(x, depth + 1)] for k, x in v.items()), key=repr)
    if isinstance(v, types.ModuleType):
        return "<module %s>" % v.__name__
    if isinstance(v, Ticker):
        return "<tick>"
    if isinstance(v, types.FunctionType):
        return "<function %s>" % v.__name__
    if isinstance(v, BaseException):
        return "<exc %s>" % type(v).__name__
    try:
        import pandas as pd
        if isinstance(v, (pd.DataFrame, pd.Series)):
            return "<pandas %s %s>" % (type(v).__name__, hashlib.sha1(v.to_csv().encode()).hexdigest()[:10])
    except ImportError:  # pragma: no cover
        pass
    return "<%s>" % type(v).__name__


def observe(fn, *args, **kwargs):
    """Run fn; return ("ok", rendered value) or ("exc", original exception type name).

    For FormulaError the type of ``mx.get_error()`` (the original exception) is reported.
    BaseExceptions other than KeyboardInterrupt/SystemExit are observed too.
    """
    try:
        v = fn(*args, **kwargs)
    except FormulaError:
        e = mx.get_error()
        return ("exc", "FormulaError:" + type(e).__name__)
    except (KeyboardInterrupt, SystemExit):
        raise
    except BaseException as e:
        return ("exc", type(e).__name__)
    return ("ok", render(v))


def raw_observe(fn, *args, **kwargs):
    """Like observe but returns the raw value / exception object."""
    try:
        return ("ok", fn(*args, **kwargs))
    except (KeyboardInterrupt, SystemExit):
        raise
    except BaseException as e:
        return ("exc", e)


def safe(fn, *a, **k):
    try:
        return fn(*a, **k)
    except (KeyboardInterrupt, SystemExit):
        raise
    except BaseException as e:
        return "BROKEN:" + type(e).__name__


def digest(obj):
    return hashlib.sha1(json.dumps(obj, sort_keys=True, default=repr).encode()).hexdigest()[:16]


# --------------------------------------------------------------------------------------
# public description of a model (definitions only; no cached values)

def _ref_desc(space_or_model, name, own=True):
    """Describe reference ``name`` of a space/model through public API."""
    try:
        if isinstance(space_or_model, mx.core.model.Model):
            val = space_or_model.refs[name]
            proxy = space_or_model._get_object(name, as_proxy=True)
        else:
            val = space_or_model.refs[name]
            proxy = space_or_model._get_object(name, as_proxy=True)
        d = {"value": render(val)}
        d["mode"] = safe(lambda: proxy.refmode)
        d["derived"] = safe(lambda: bool(proxy.is_derived()))
        return d
    except BaseException as e:
        return "BROKEN:" + type(e).__name__


def describe_cells(c, with_values=True):
    d = {}
    d["name"] = safe(lambda: c.name)            # the object's own idea of its name (== its key in the container)
    d["src"] = safe(lambda: c.formula.source)
    d["params"] = safe(lambda: list(c.parameters))
    d["cached"] = safe(lambda: bool(c.is_cached))
    d["allow_none"] = safe(lambda: c.allow_none)
    d["derived"] = safe(lambda: bool(c._is_derived()))
    d["doc"] = safe(lambda: c.doc)
    if with_values:
        def inputs():
            out = []
            impl = c._impl
            for k in impl.data:
                if k in impl.input_keys:
                    out.append([render(k), render(impl.data[k])])
            return sorted(out, key=repr)
        d["inputs"] = safe(inputs)
    return d


def describe_space(s, with_values=True, with_items=False):
    d = {}
    d["name"] = safe(lambda: s.name)
    d["direct_bases"] = safe(lambda: [b.fullname.split(".", 1)[1] for b in s._direct_bases]) \
        if hasattr(s, "_direct_bases") else []
    d["bases"] = safe(lambda: [b.fullname.split(".", 1)[1] for b in s.bases])
    d["formula"] = safe(lambda: s.formula.source if s.formula is not None else None)
    d["doc"] = safe(lambda: s.doc)
    d["allow_none"] = safe(lambda: s.allow_none)
    d["cells"] = safe(lambda: {n: describe_cells(c, with_values) for n, c in s.cells.items()})
    d["refs"] = safe(lambda: {n: _ref_desc(s, n) for n in s._own_refs})
    d["spaces"] = safe(lambda: {n: describe_space(ch, with_values, with_items)
                                for n, ch in s.named_spaces.items()})
    if with_items:
        def items():
            out = {}
            for key, it in s._impl.param_spaces.items():
                out[json.dumps(render(key))] = describe_space(it.interface, with_values, with_items)
            return out
        d["items"] = safe(items)
    return d


def describe_model(m, with_values=True, with_items=False, with_name=True):
    d = {}
    if with_name:
        d["name"] = safe(lambda: m.name)
    d["doc"] = safe(lambda: m.doc)
    d["allow_none"] = safe(lambda: m.allow_none)
    d["refs"] = safe(lambda: {n: _ref_desc(m, n) for n in m.refs if n != "__builtins__"})
    d["spaces"] = safe(lambda: {n: describe_space(s, with_values, with_items) for n, s in m.spaces.items()})
    return d


# --------------------------------------------------------------------------------------
# held values, graphs (state canonicalisation)

def walk_spaces(m, dynamic=True):
    """Yield every space interface of model m (static, and dynamic if requested)."""
    stack = list(m.spaces.values())
    while stack:
        s = stack.pop()
        yield s
        stack.extend(s.named_spaces.values())
        if dynamic:
            try:
                stack.extend(it.interface for it in s._impl.param_spaces.values())
            except BaseException:
                pass


def space_path(s):
    """Path of a space relative to the model, ItemSpaces rendered as Parent[args]."""
    r = s._impl.get_repr(fullname=True, add_params=True)
    return r.split(".", 1)[1] if "." in r else r


def held_values(m):
    """{(cells path, key): (value, is_input)} for every cells in the model incl. dynamic spaces."""
    out = {}
    for s in walk_spaces(m):
        sp = space_path(s)
        for n, c in s.cells.items():
            impl = c._impl
            for k, v in impl.data.items():
                out[(sp + "." + n, json.dumps(render(k)))] = (render(v), k in impl.input_keys)
    return out


def input_marks(m):
    """Every key marked as input in any cells (whether or not a value is held for it): part of the mutable
    state, so it must be part of the canonical state."""
    out = []
    for s in walk_spaces(m):
        sp = space_path(s)
        for n, c in s.cells.items():
            for k in c._impl.input_keys:
                out.append([sp + "." + n, json.dumps(render(k))])
    return sorted(out)


def lazy_bits(m):
    """Freshness flags of the lazily refreshed objects (namespaces, bound functions): hidden mutable state."""
    out = []
    for s in walk_spaces(m):
        sp = space_path(s)
        impl = s._impl
        bits = []
        for attr in ("_namespace", "_cells", "_refs", "_own_refs", "_named_spaces"):
            o = getattr(impl, attr, None)
            bits.append(int(bool(getattr(o, "is_fresh", True))))
        af = getattr(impl, "altfunc", None)
        bits.append(-1 if af is None else int(bool(af.is_fresh)))
        out.append([sp, bits])
        for n, c in s.cells.items():
            af = getattr(c._impl, "altfunc", None)
            out.append([sp + "." + n, -1 if af is None else int(bool(af.is_fresh)),
                        int(af is not None and af.altfunc is not None)])
    return sorted(out, key=repr)


def graph_state(m):
    tg = m._impl.tracegraph
    rg = m._impl.refgraph
    def nn(n):
        try:
            return "%s%s" % node_name(n)
        except BaseException as e:
            return "BROKEN:" + type(e).__name__
    nodes = sorted(nn(n) for n in tg.nodes)
    edges = sorted([nn(a), nn(b)] for a, b in tg.edges)
    rnodes = sorted(nn(n) for n in rg.nodes)
    redges = sorted([nn(a), nn(b)] for a, b in rg.edges)
    return {"tn": nodes, "te": edges, "rn": rnodes, "re": redges}


def session_canon(extra=None, with_graph=True):
    """Canonical description of everything the session holds."""
    d = {"models": {}, "registry": sorted(mxsys.models), "exec": executor_quiescent(),
         "recalc": bool(mxsys._recalc_dependents), "maxdepth": mxsys.callstack.maxdepth,
         "serializing": mxsys.serializing is not None}
    for name, impl in mxsys.models.items():
        m = impl.interface
        md = describe_model(m, with_values=False, with_items=True)
        md["held"] = sorted([list(k) + list(v) for k, v in safe(lambda: held_values(m)).items()], key=repr) \
            if not isinstance(safe(lambda: held_values(m)), str) else "BROKEN"
        md["input_marks"] = safe(lambda: input_marks(m))
        md["lazy"] = safe(lambda: lazy_bits(m))
        if with_graph:
            md["graph"] = safe(lambda: graph_state(m))
        d["models"][name] = md
    if extra is not None:
        d["extra"] = extra
    return d
