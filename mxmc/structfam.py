"""Structure family (C03, C10, C11, C12, C13): all ordered-base inheritance DAGs on a few spaces with
member placements; canonical construction; structural edit alphabet; reference derivation."""
import itertools
import json

import networkx as nx
import modelx as mx

from mxmc import ops as O
from mxmc.refsem import RefModel, RCells, NoLinearisation, Evaluator
from mxmc.session import reset_world, observe, render, safe, describe_space

NAMES3 = ["A", "B", "C"]
NAMES4 = ["A", "B", "C", "D"]


def base_options(others, kmax=2):
    out = [[]]
    for k in range(1, kmax + 1):
        for p in itertools.permutations(others, k):
            out.append(list(p))
    return out


def ordered_dags(names, kmax=2, consistent_only=True):
    """All assignments of ordered direct-base lists giving an acyclic graph (and a C3 linearisation)."""
    res = []
    for combo in itertools.product(*[base_options([o for o in names if o != s], kmax) for s in names]):
        g = nx.DiGraph()
        g.add_nodes_from(names)
        for s, bs in zip(names, combo):
            for b in bs:
                g.add_edge(b, s)
        if not nx.is_directed_acyclic_graph(g):
            continue
        bases = {s: list(bs) for s, bs in zip(names, combo)}
        if consistent_only:
            rm = RefModel()
            for s in names:
                rm.new_space(s).bases = bases[s]
            try:
                for s in names:
                    rm.mro(s)
            except NoLinearisation:
                continue
        res.append(bases)
    return res


NAMES5 = ["N", "X", "P", "Q", "W"]
_dags5 = {}


def layered_dags5(unequal_only):
    """Ordered-base DAGs on five spaces in which every space takes at most two bases among the spaces named
    before it (one representative per relabelling), linearisable; optionally only those in which some space
    is reachable from an ancestor by paths of different lengths (the order of re-derivation matters there)."""
    if unequal_only in _dags5:
        return _dags5[unequal_only]
    res = []
    names = NAMES5
    for combo in itertools.product(*[base_options(names[:i], 2) for i in range(len(names))]):
        bases = {s: list(bs) for s, bs in zip(names, combo)}
        g = nx.DiGraph()
        g.add_nodes_from(names)
        for s, bs in bases.items():
            for b in bs:
                g.add_edge(b, s)
        if not nx.is_weakly_connected(g):
            continue
        rm = RefModel()
        for s in names:
            rm.new_space(s).bases = bases[s]
        try:
            for s in names:
                rm.mro(s)
        except NoLinearisation:
            continue
        if unequal_only:
            uneq = False
            for a in names:
                for d in nx.descendants(g, a):
                    if len({len(p) for p in nx.all_simple_paths(g, a, d)}) > 1:
                        uneq = True
                        break
                if uneq:
                    break
            if not uneq:
                continue
        res.append(bases)
    _dags5[unequal_only] = res
    return res


def xsrc(definer, alt=False):
    return 'lambda: "%s%s:" + str(y)' % (definer, "'" if alt else "")


def topo(bases):
    g = nx.DiGraph()
    g.add_nodes_from(bases)
    for s, bs in bases.items():
        for b in bs:
            g.add_edge(b, s)
    return list(nx.lexicographical_topological_sort(g))


def build_rm(root):
    """Reference definitions of a root."""
    rm = RefModel()
    for s in root["bases"]:
        rm.new_space(s)
    for s in root.get("x", []):
        rm.space(s).cells["x"] = RCells(xsrc(s))
    for s in root.get("y", []):
        rm.space(s).refs["y"] = (s, "auto")
    for s, bs in root["bases"].items():
        rm.space(s).bases = list(bs)
    return rm


def construct(rm, name="M"):
    """Canonical construction of a model from reference definitions (top-level spaces and one nested
    level): spaces, members, then bases in topological order."""
    m = mx.new_model(name)
    paths = rm.all_paths()
    for p in paths:
        parts = p.split(".")
        parent = m if len(parts) == 1 else O.resolve(m, ".".join(parts[:-1]))
        parent.new_space(parts[-1], formula=rm.space(p).formula)
    for p in paths:
        sp = O.resolve(m, p)
        for n, c in rm.space(p).cells.items():
            sp.new_cells(n, formula=c.src, is_cached=c.cached)
        for n, (v, mode) in rm.space(p).refs.items():
            if mode and mode != "auto":
                sp.set_ref(n, O.val_impl(m, v), mode)
            else:
                setattr(sp, n, O.val_impl(m, v))
    bases = {p: rm.space(p).bases for p in paths}
    for p in topo(bases):
        if bases[p]:
            O.resolve(m, p).add_bases(*[O.resolve(m, b) for b in bases[p]])
    return m


class StructWorld:
    def __init__(self, root):
        reset_world()
        self.root = root
        self.rm = build_rm(root)
        self.m = construct(self.rm)

    def apply(self, op):
        ob = O.apply_impl(self.m, op)
        if ob[0] == "ok" and O.is_edit(op):
            O.apply_ref(self.rm, op)
        return ob


# --------------------------------------------------------------------------------------
# description of the implementation as sets (orders not compared)

def impl_view(m):
    """{space path: {"bases": [...], "cells": {name: (src, derived, cached)}, "refs": {name: (value, derived)}}}"""
    out = {}

    def rec(prefix, spaces):
        for n, s in spaces.items():
            p = prefix + n
            d = {}
            d["bases"] = safe(lambda: [b.fullname.split(".", 1)[1] for b in s.bases])
            d["direct"] = safe(lambda: [b.fullname.split(".", 1)[1] for b in s._direct_bases])
            d["cells"] = safe(lambda: {cn: [c.formula.source, bool(c._is_derived()), bool(c.is_cached)]
                                       for cn, c in s.cells.items()})
            def refs():
                r = {}
                for rn in s._own_refs:
                    px = s._get_object(rn, as_proxy=True)
                    r[rn] = [render(px.value), bool(px.is_derived()), px.refmode]
                return r
            d["refs"] = safe(refs)
            out[p] = d
            rec(p + ".", s.named_spaces)
    rec("", m.spaces)
    return out


def ref_view(rm):
    out = {}
    for p in rm.all_paths():
        sp = rm.space(p)
        d = {"bases": rm.mro(p)[1:], "direct": list(sp.bases)}
        d["cells"] = {n: [c.src, n not in sp.cells, bool(c.cached)] for n, (definer, c) in rm.cells_of(p).items()}
        d["refs"] = {n: [render(v) if not O.is_obj(v) else v, n not in sp.refs, mode]
                     for n, (definer, v, mode) in rm.refs_of(p).items()}
        out[p] = d
    return out


# --------------------------------------------------------------------------------------
# structural alphabet (applicability decided on the reference model)

def struct_ops(rm, names, with_new_space=True, with_cached=True):
    ops = []
    existing = [p for p in rm.all_paths() if "." not in p]
    for s in existing:
        sp = rm.space(s)
        if "x" in sp.cells:
            ops.append({"op": "del_cells", "sp": s, "c": "x"})
            ops.append({"op": "set_formula", "sp": s, "c": "x", "src": xsrc(s, alt=True)})
            if with_cached:
                ops.append({"op": "set_cached", "sp": s, "c": "x", "v": not sp.cells["x"].cached})
            if "w" not in sp.cells:
                ops.append({"op": "rename_cells", "sp": s, "c": "x", "new": "w"})
        else:
            ops.append({"op": "new_cells", "sp": s, "c": "x", "src": xsrc(s), "cached": True})
            try:
                if "x" in rm.cells_of(s):       # override a derived cells
                    ops.append({"op": "set_formula", "sp": s, "c": "x", "src": xsrc(s, alt=True)})
            except NoLinearisation:
                pass
        if "y" in sp.refs:
            ops.append({"op": "del_ref", "sp": s, "n": "y"})
            ops.append({"op": "set_ref", "sp": s, "n": "y", "v": s + "2"})
        else:
            ops.append({"op": "set_ref", "sp": s, "n": "y", "v": s})
            try:
                inherited = rm.refs_of(s).get("y")
            except NoLinearisation:
                inherited = None
            if inherited is not None:
                # override a derived reference with the very value it already carries: it becomes defined
                ops.append({"op": "set_ref", "sp": s, "n": "y", "v": inherited[1]})
        for t in existing:
            if t == s:
                continue
            if t in sp.bases:
                ops.append({"op": "remove_bases", "sp": s, "bases": [t]})
            else:
                ops.append({"op": "add_bases", "sp": s, "bases": [t]})
        ops.append({"op": "del_space", "sp": "", "n": s})
    if with_new_space:
        new = [n for n in ["D", "E"] if n not in existing][:1]
        for n in new:
            for bs in base_options(existing, 2):
                ops.append({"op": "new_space", "sp": "", "n": n, "bases": bs, "formula": None})
    return ops


def valid_in_ref(rm, op):
    """Would the op leave the reference model well-formed (acyclic, linearisable)?"""
    import copy
    rm2 = copy.deepcopy(rm)
    try:
        O.apply_ref(rm2, op)
        for p in rm2.all_paths():
            rm2.mro(p)
        return True
    except (NoLinearisation, KeyError, ValueError):
        return False
