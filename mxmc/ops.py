"""Operations (JSON records) with three renderings: on the implementation (public modelx API
only), on the reference model (definitions), and as a line of a reproduction script."""
import json

import modelx as mx
from mxmc.refsem import (RefModel, RCells, RSpace, parse_path, path_of, is_obj, split_path,
                         NoLinearisation)
from mxmc.session import observe, TICK

EVAL_OPS = {"q"}


def _memoise_lambda_extraction():
    """Half of the cost of building a model is asttokens parsing the same lambda sources again and again.
    `extract_lambda_from_source` is a pure function str -> str; the drivers built on this module (not C04,
    C15, C20, whose subject is formula capture) run it through a cache.  Exceptions are not cached."""
    import functools
    from modelx.core import formula as F
    if not hasattr(F.extract_lambda_from_source, "cache_info"):
        F.extract_lambda_from_source = functools.lru_cache(maxsize=None)(F.extract_lambda_from_source)


_memoise_lambda_extraction()


def is_edit(op):
    return op["op"] not in EVAL_OPS


# --------------------------------------------------------------------------------------
# implementation side

def resolve(m, path):
    """Instance path ('S.T', 'P[1].T') -> interface object, via public mappings."""
    o = m
    for kind, v in parse_path(path):
        if kind == "s":
            if o is m:
                o = m.spaces[v]
            else:
                o = o.named_spaces[v] if v in o.named_spaces else getattr(o, v)
        else:
            o = o[tuple(v)] if len(v) != 1 else o[v[0]]
    return o


def resolve_obj(m, path):
    """'O.c' -> cells or space interface."""
    parts = path.split(".")
    o = m.spaces[parts[0]]
    for p in parts[1:]:
        if p in o.named_spaces:
            o = o.named_spaces[p]
        else:
            o = o.cells[p]
    return o


def val_impl(m, v):
    if is_obj(v):
        return resolve_obj(m, v["obj"])
    if v == "<tick>":
        return TICK
    if isinstance(v, dict) and "list" in v:
        return list(v["list"])
    return v


def apply_impl(m, op):
    """Apply op to model m. Returns an observation ("ok", value) / ("exc", type name)."""
    return observe(_apply_impl, m, op)


def _apply_impl(m, op):
    k = op["op"]
    if k == "q":
        sp = resolve(m, op["sp"])
        c = sp.cells[op["c"]]
        args = [val_impl(m, a) for a in op.get("args", [])]
        how = op.get("how", "call")
        if how == "call":
            return c(*args)
        if how == "kw":
            return c(**dict(zip(c.parameters, args)))
        if how == "getitem":
            return c[tuple(args)] if len(args) != 1 else c[args[0]]
        if how == "getitem_t":
            return c[tuple(args)]
        if how == "value":
            return c.value
        if how == "attr":       # space.cells_name(...)
            return getattr(sp, op["c"])(*args)
        raise ValueError(how)
    owner = resolve(m, op["sp"]) if op.get("sp") else m
    if k == "set_ref":
        v = val_impl(m, op["v"])
        if op.get("mode"):
            owner.set_ref(op["n"], v, op["mode"])
        else:
            setattr(owner, op["n"], v)
        return None
    if k == "del_ref":
        delattr(owner, op["n"])
        return None
    if k == "set_formula":
        owner.cells[op["c"]].formula = op["src"]
        return None
    if k == "set_cached":
        owner.cells[op["c"]].is_cached = op["v"]
        return None
    if k == "set_allow_none":
        (owner.cells[op["c"]] if op.get("c") else owner).allow_none = op["v"]
        return None
    if k == "new_cells":
        owner.new_cells(op["c"], formula=op["src"], is_cached=op.get("cached", True))
        return None
    if k == "del_cells":
        delattr(owner, op["c"])
        return None
    if k == "rename_cells":
        owner.cells[op["c"]].rename(op["new"])
        return None
    if k == "copy_cells":
        owner.cells[op["c"]].copy(resolve(m, op["to"]), op["new"])
        return None
    if k == "sort_cells":
        owner.sort_cells()
        return None
    if k == "new_space":
        bases = [resolve(m, b) for b in op.get("bases", [])]
        owner.new_space(op["n"], bases=bases or None, formula=op.get("formula"))
        return None
    if k == "del_space":
        delattr(owner, op["n"])
        return None
    if k == "rename_space":
        owner.rename(op["new"])
        return None
    if k == "add_bases":
        owner.add_bases(*[resolve(m, b) for b in op["bases"]])
        return None
    if k == "remove_bases":
        owner.remove_bases(*[resolve(m, b) for b in op["bases"]])
        return None
    if k == "set_input":
        c = owner.cells[op["c"]]
        args = tuple(op["args"])
        if op.get("how") == "value":
            c.value = val_impl(m, op["v"])
        elif op.get("how") == "attr":
            setattr(owner, op["c"], val_impl(m, op["v"]))
        else:
            c[args if len(args) != 1 else args[0]] = val_impl(m, op["v"])
        return None
    if k == "clear":
        owner.cells[op["c"]].clear()
        return None
    if k == "clear_all":
        owner.cells[op["c"]].clear_all()
        return None
    if k == "clear_at":
        owner.cells[op["c"]].clear_at(*op["args"])
        return None
    if k == "del_value":
        del owner.cells[op["c"]].value
        return None
    if k == "space_clear_all":
        owner.clear_all()
        return None
    if k == "space_clear_cells":
        owner.clear_cells()
        return None
    if k == "model_clear_all":
        m.clear_all()
        return None
    if k == "set_param":
        if op["src"] is None:
            del owner.formula
        else:
            owner.formula = op["src"]
        return None
    if k == "del_item":
        a = tuple(op["args"])
        del owner[a if len(a) != 1 else a[0]]
        return None
    if k == "clear_items":
        owner.clear_items()
        return None
    if k == "recalc":
        mx.set_recalc(op["v"])
        return None
    if k == "py":       # free-form statement(s) with the model bound to m (catalogues of invalid operations)
        env = {"m": m, "mx": mx}
        exec(op["code"], env)
        return env.get("result")
    raise ValueError("unknown op %r" % (op,))


# --------------------------------------------------------------------------------------
# reference side (definitions only)

class Inapplicable(Exception):
    """The op has no defined spec-level effect in this state (harness should not generate it)."""


def apply_ref(rm, op):
    """Apply the spec-level effect of an *edit* op to RefModel rm (in place)."""
    k = op["op"]
    if k in ("q", "recalc", "clear", "clear_at", "del_value", "del_item", "clear_items", "sort_cells"):
        if k in ("clear_at", "del_value"):
            # clearing an input element removes the input
            sp = rm.space(op["sp"])
            key = tuple(op.get("args", ()))
            if op["c"] in sp.cells:
                sp.cells[op["c"]].inputs.pop(key, None)
        return
    if k == "set_ref":
        if op.get("sp"):
            sp = rm.space(op["sp"])
            sp.refs[op["n"]] = (op["v"], op.get("mode") or "auto")
        else:
            rm.refs[op["n"]] = op["v"]
        return
    if k == "del_ref":
        if op.get("sp"):
            del rm.space(op["sp"]).refs[op["n"]]
        else:
            del rm.refs[op["n"]]
        return
    sp = rm.space(op["sp"]) if op.get("sp") else None
    if k == "set_formula":
        if op["c"] in sp.cells:
            sp.cells[op["c"]].src = op["src"]
            sp.cells[op["c"]].inputs.clear()     # a formula assignment discards all values of the cells
        else:   # overriding a derived cells defines it
            definer, c = rm.cells_of(op["sp"])[op["c"]]
            sp.cells[op["c"]] = RCells(op["src"], c.cached, None)
        return
    if k == "set_cached":
        if op["c"] in sp.cells:
            sp.cells[op["c"]].cached = op["v"]
        else:
            definer, c = rm.cells_of(op["sp"])[op["c"]]
            sp.cells[op["c"]] = RCells(c.src, op["v"], None)
        sp.cells[op["c"]].inputs.clear()     # any flag assignment discards all values of the cells
        return
    if k == "set_allow_none":
        if op.get("c"):
            sp.cells[op["c"]].allow_none = op["v"]
        elif sp is not None:
            sp.allow_none = op["v"]
        else:
            rm.allow_none = op["v"]
        return
    if k == "new_cells":
        sp.cells[op["c"]] = RCells(op["src"], op.get("cached", True))
        return
    if k == "del_cells":
        del sp.cells[op["c"]]
        return
    if k == "rename_cells":
        items = list(sp.cells.items())
        sp.cells.clear()
        for n, c in items:
            if n == op["c"]:
                c = c.copy()
                c.inputs.clear()
                if c.src.lstrip().startswith("def"):
                    import re
                    c.src = re.sub(r"def\s+" + op["c"] + r"\b", "def " + op["new"], c.src, count=1)
                sp.cells[op["new"]] = c
            else:
                sp.cells[n] = c
        return
    if k == "copy_cells":
        # a copy carries the formula and the assigned values (not the computed ones); it is created cached
        definer, src = rm.cells_of(op["sp"])[op["c"]]
        c = src.copy()
        c.cached = True
        c.inputs = dict(src.inputs)
        if c.src.lstrip().startswith("def"):
            import re
            c.src = re.sub(r"def\s+" + op["c"] + r"\b", "def " + op["new"], c.src, count=1)
        rm.space(op["to"]).cells[op["new"]] = c
        return
    if k == "new_space":
        path = (op["sp"] + "." if op.get("sp") else "") + op["n"]
        rm.new_space(path, bases=op.get("bases", []), formula=op.get("formula"))
        return
    if k == "del_space":
        path = (op["sp"] + "." if op.get("sp") else "") + op["n"]
        rm.del_space(path)
        return
    if k == "rename_space":
        rm.rename_space(op["sp"], op["new"])
        for p in rm.all_paths():
            for c in rm.space(p).cells.values():
                pass
        # inputs of the renamed tree are cleared by modelx
        newpath = ".".join(split_path(op["sp"])[:-1] + [op["new"]])
        for p in rm.all_paths():
            if p == newpath or p.startswith(newpath + "."):
                for c in rm.space(p).cells.values():
                    c.inputs.clear()
        return
    if k == "add_bases":
        sp.bases.extend(op["bases"])
        return
    if k == "remove_bases":
        for b in op["bases"]:
            sp.bases.remove(b)
        return
    if k == "set_input":
        c = sp.cells[op["c"]]
        c.inputs[tuple(op["args"])] = op["v"]
        return
    if k == "clear_all":
        sp.cells[op["c"]].inputs.clear()
        return
    if k == "space_clear_all":
        def rec(s):
            for c in s.cells.values():
                c.inputs.clear()
            for ch in s.children.values():
                rec(ch)
        rec(sp)
        return
    if k == "model_clear_all":
        for p in rm.all_paths():
            for c in rm.space(p).cells.values():
                c.inputs.clear()
        return
    if k == "space_clear_cells":
        return
    if k == "set_param":
        sp.formula = op["src"]
        return
    raise ValueError("unknown op %r" % (op,))


# --------------------------------------------------------------------------------------
# building a model from a RefModel-like spec (JSON)

def build_from_spec(spec, name="M"):
    """spec: {"refs": {...}, "spaces": {name: {...}}} -> (model, RefModel).

    space spec: {"bases": [paths], "formula": src, "refs": {n: v | [v, mode]},
                 "cells": {n: src | {"src":..,"cached":..,"allow_none":..,"inputs":[[args, v],..]}},
                 "spaces": {...}, "allow_none": ...}
    Spaces are created in the given order; bases must already exist.
    """
    m = mx.new_model(name)
    rm = RefModel()
    for n, v in spec.get("refs", {}).items():
        setattr(m, n, val_impl(m, v))
        rm.refs[n] = v
    if "allow_none" in spec:
        m.allow_none = spec["allow_none"]
        rm.allow_none = spec["allow_none"]
    deferred = []

    def mk(parent, ppath, n, sd):
        path = (ppath + "." if ppath else "") + n
        bases = [resolve(m, b) for b in sd.get("bases", [])]
        s = parent.new_space(n, bases=bases or None, formula=sd.get("formula"))
        rs = rm.new_space(path, bases=sd.get("bases", []), formula=sd.get("formula"))
        if "allow_none" in sd:
            s.allow_none = sd["allow_none"]
            rs.allow_none = sd["allow_none"]
        for cn, cd in sd.get("cells", {}).items():
            if isinstance(cd, str):
                cd = {"src": cd}
            c = s.new_cells(cn, formula=cd["src"], is_cached=cd.get("cached", True))
            rc = RCells(cd["src"], cd.get("cached", True), cd.get("allow_none"))
            if cd.get("allow_none") is not None:
                c.allow_none = cd["allow_none"]
            rs.cells[cn] = rc
            for args, v in cd.get("inputs", []):
                deferred.append((path, cn, tuple(args), v))
        for chn, chd in sd.get("spaces", {}).items():
            mk(s, path, chn, chd)
        for rn, rv in sd.get("refs", {}).items():
            deferred.append((path, rn, rv))

    for n, sd in spec.get("spaces", {}).items():
        mk(m, "", n, sd)
    for d in deferred:
        if len(d) == 3:
            path, rn, rv = d
            mode = None
            if isinstance(rv, list):
                rv, mode = rv
            s = resolve(m, path)
            if mode:
                s.set_ref(rn, val_impl(m, rv), mode)
            else:
                setattr(s, rn, val_impl(m, rv))
            rm.space(path).refs[rn] = (rv, mode or "auto")
    for d in deferred:
        if len(d) == 4:
            path, cn, args, v = d
            c = resolve(m, path).cells[cn]
            c[args if len(args) != 1 else args[0]] = v
            rm.space(path).cells[cn].inputs[args] = v
    return m, rm


# --------------------------------------------------------------------------------------
# script rendering

def _pyval(v):
    if is_obj(v):
        return "m." + v["obj"]
    if v == "<tick>":
        return "(lambda: 0)"
    if isinstance(v, dict) and "list" in v:
        return repr(list(v["list"]))
    return repr(v)


def _pypath(path):
    return "m." + path if path else "m"


def op_to_python(op):
    k = op["op"]
    sp = _pypath(op.get("sp", ""))
    if k == "q":
        args = ", ".join(_pyval(a) for a in op.get("args", []))
        how = op.get("how", "call")
        if how == "value":
            return "print(%s.%s.value)" % (sp, op["c"])
        if how.startswith("getitem"):
            return "print(%s.%s[%s])" % (sp, op["c"], args + ("," if how == "getitem_t" else ""))
        return "print(%s.%s(%s))" % (sp, op["c"], args)
    if k == "set_ref":
        if op.get("mode"):
            return "%s.set_ref(%r, %s, %r)" % (sp, op["n"], _pyval(op["v"]), op["mode"])
        return "%s.%s = %s" % (sp, op["n"], _pyval(op["v"]))
    if k == "del_ref":
        return "del %s.%s" % (sp, op["n"])
    if k == "set_formula":
        return "%s.%s.formula = %r" % (sp, op["c"], op["src"])
    if k == "set_cached":
        return "%s.%s.is_cached = %r" % (sp, op["c"], op["v"])
    if k == "set_allow_none":
        return "%s%s.allow_none = %r" % (sp, "." + op["c"] if op.get("c") else "", op["v"])
    if k == "new_cells":
        return "%s.new_cells(%r, formula=%r, is_cached=%r)" % (sp, op["c"], op["src"], op.get("cached", True))
    if k == "del_cells":
        return "del %s.%s" % (sp, op["c"])
    if k == "rename_cells":
        return "%s.%s.rename(%r)" % (sp, op["c"], op["new"])
    if k == "copy_cells":
        return "%s.%s.copy(%s, %r)" % (sp, op["c"], _pypath(op["to"]), op["new"])
    if k == "sort_cells":
        return "%s.sort_cells()" % sp
    if k == "new_space":
        return "%s.new_space(%r, bases=[%s], formula=%r)" % (
            sp, op["n"], ", ".join(_pypath(b) for b in op.get("bases", [])), op.get("formula"))
    if k == "del_space":
        return "del %s.%s" % (sp, op["n"])
    if k == "rename_space":
        return "%s.rename(%r)" % (sp, op["new"])
    if k in ("add_bases", "remove_bases"):
        return "%s.%s(%s)" % (sp, k, ", ".join(_pypath(b) for b in op["bases"]))
    if k == "set_input":
        if op.get("how") == "value":
            return "%s.%s.value = %s" % (sp, op["c"], _pyval(op["v"]))
        if op.get("how") == "attr":
            return "%s.%s = %s" % (sp, op["c"], _pyval(op["v"]))
        a = tuple(op["args"])
        return "%s.%s[%r] = %s" % (sp, op["c"], a if len(a) != 1 else a[0], _pyval(op["v"]))
    if k in ("clear", "clear_all"):
        return "%s.%s.%s()" % (sp, op["c"], k)
    if k == "clear_at":
        return "%s.%s.clear_at(%s)" % (sp, op["c"], ", ".join(repr(a) for a in op["args"]))
    if k == "del_value":
        return "del %s.%s.value" % (sp, op["c"])
    if k == "space_clear_all":
        return "%s.clear_all()" % sp
    if k == "space_clear_cells":
        return "%s.clear_cells()" % sp
    if k == "model_clear_all":
        return "m.clear_all()"
    if k == "set_param":
        return "%s.formula = %r" % (sp, op["src"]) if op["src"] is not None else "del %s.formula" % sp
    if k == "del_item":
        a = tuple(op["args"])
        return "del %s[%r]" % (sp, a if len(a) != 1 else a[0])
    if k == "clear_items":
        return "%s.clear_items()" % sp
    if k == "recalc":
        return "mx.set_recalc(%r)" % op["v"]
    if k == "py":
        return op["code"]
    return "# %s" % json.dumps(op)


def spec_to_python(spec):
    L = ["import modelx as mx", "m = mx.new_model('M')"]
    for n, v in spec.get("refs", {}).items():
        L.append("m.%s = %s" % (n, _pyval(v)))
    if "allow_none" in spec:
        L.append("m.allow_none = %r" % spec["allow_none"])
    later = []

    def mk(ppath, n, sd):
        path = (ppath + "." if ppath else "") + n
        L.append("%s.new_space(%r, bases=[%s], formula=%r)" % (
            _pypath(ppath), n, ", ".join(_pypath(b) for b in sd.get("bases", [])), sd.get("formula")))
        if "allow_none" in sd:
            L.append("m.%s.allow_none = %r" % (path, sd["allow_none"]))
        for cn, cd in sd.get("cells", {}).items():
            if isinstance(cd, str):
                cd = {"src": cd}
            L.append("m.%s.new_cells(%r, formula=%r, is_cached=%r)" % (path, cn, cd["src"], cd.get("cached", True)))
            if cd.get("allow_none") is not None:
                L.append("m.%s.%s.allow_none = %r" % (path, cn, cd["allow_none"]))
            for args, v in cd.get("inputs", []):
                a = tuple(args)
                later.append("m.%s.%s[%r] = %r" % (path, cn, a if len(a) != 1 else a[0], v))
        for chn, chd in sd.get("spaces", {}).items():
            mk(path, chn, chd)
        for rn, rv in sd.get("refs", {}).items():
            if isinstance(rv, list):
                later.insert(0, "m.%s.set_ref(%r, %s, %r)" % (path, rn, _pyval(rv[0]), rv[1]))
            else:
                later.insert(0, "m.%s.%s = %s" % (path, rn, _pyval(rv)))

    for n, sd in spec.get("spaces", {}).items():
        mk("", n, sd)
    return "\n".join(L + later)


def history_script(spec, ops):
    return spec_to_python(spec) + "\n" + "\n".join(op_to_python(o) for o in ops)
