"""Fault family (C05, C17): dependency shapes written as multi-line def formulas with calls on known
lines, faults injected through tick(), reference evaluation with the same armed faults."""
import json
import traceback

import modelx as mx
from modelx.core.errors import NoneReturnedError, FormulaError
from mxmc import ops as O
from mxmc.refsem import Evaluator, tree_elems
from mxmc.session import (reset_world, TICK, FAULT_KINDS, render, observe, digest, node_name,
                          executor_quiescent, QUIESCENT, safe)
from mxmc.evalfam import held_elems, item_elems
from mxmc.drivers.c16 import all_dags

KINDS = ["ValueError", "Custom", "ZeroDiv", "Base", "None"]


def def_formula(name, params, calls, const):
    """def with tick on line 2, one call per line from line 5 on."""
    # line 2 reads a reference by attribute path BEFORE the fault point (tick, line 3): a failing formula
    # leaves a pending reference read that the executor has to discard
    L = ["def %s(%s):" % (name, params), "    z0 = _space.zz", "    t = tick() + z0", "    if t:", "        return None",
         "    s = %s" % const]
    for c in calls:
        L.append("    s += " + c)
    L.append("    return s")
    return "\n".join(L) + "\n"


def shape_spec(shape):
    """shape: {"kind": "dag", "n", "edges", "uncached": [...]} or a named special shape."""
    k = shape["kind"]
    refs = {"tick": "<tick>"}
    if k == "dag":
        n, edges, unc = shape["n"], [tuple(e) for e in shape["edges"]], set(shape.get("uncached", []))
        cells = {}
        for i in range(n):
            calls = ["e%d()" % j for (j, kk) in edges if kk == i]
            cells["e%d" % i] = {"src": def_formula("e%d" % i, "", calls, 1 + 7 * i), "cached": i not in unc}
        return {"refs": refs, "spaces": {"S": {"refs": {"zz": 0}, "cells": cells}}}
    if k == "rec":      # recursion on the argument, one cells (optionally uncached)
        src = "def v(i):\n    z0 = _space.zz\n    t = tick() + z0\n    if t:\n        return None\n    if i > 0:\n        return v(i - 1) + 1\n    return 1\n"
        return {"refs": refs, "spaces": {"S": {"refs": {"zz": 0},
                                               "cells": {"v": {"src": src, "cached": not shape.get("uncached")},
                                                        "top": def_formula("top", "", ["v(2)", "v(1)"], 0)}}}}
    if k == "catcher":  # a formula that handles the failure of a callee and continues
        c = {"e0": def_formula("e0", "", [], 1),
             "e1": def_formula("e1", "", ["e0()"], 8),
             "c": "def c():\n    t = tick() + _space.zz\n    try:\n        a = e1()\n    except Exception:\n        a = -1\n    b = e2()\n    return t + a + b\n",
             "e2": def_formula("e2", "", [], 15),
             "top": def_formula("top", "", ["c()", "e0()"], 0)}
        return {"refs": refs, "spaces": {"S": {"refs": {"zz": 0}, "cells": c}}}
    if k == "lambda":   # lambdas, comprehension, generator
        c = {"e0": "lambda: _space.zz + tick() + 1",
             "e1": "lambda x: _space.zz + tick() + e0() + x",
             "e2": "lambda: tick() + sum([e1(i) for i in range(2)])",
             "e3": "lambda: tick() + sum(e1(i) for i in range(3)) + e2()"}
        return {"refs": refs, "spaces": {"S": {"refs": {"zz": 0}, "cells": c}}}
    if k == "item":     # ItemSpace: parameter formula and cells inside the instance as failure points
        P = {"formula": "def _formula(i):\n    t = tick()\n    return None\n",
             "refs": {"zz": 0},
             # the space allows None, the cells themselves do not: instances must follow the cells' own setting
             "allow_none": True,
             "cells": {"c": {"src": def_formula("c", "", [], 3), "allow_none": False},
                       "d": {"src": def_formula("d", "x", ["c()"], 0), "allow_none": False}}}
        S = {"refs": {"P": {"obj": "P"}, "zz": 0},
             "cells": {"it": def_formula("it", "x", ["P[x].c()", "P[x].d(1)"], 0),
                       "top": def_formula("top", "", ["it(1)", "it(2)"], 0)}}
        return {"refs": refs, "spaces": {"P": P, "S": S}}
    if k == "allow":    # allow_none changed between evaluations: static cells, derived cells, ItemSpace copies
        P = {"formula": "def _formula(i):\n    return None\n", "refs": {"zz": 0},
             "cells": {"c": def_formula("c", "", [], 3), "d": def_formula("d", "x", ["c()"], 0)}}
        return {"refs": refs, "spaces": {"P": P, "Q": {"bases": ["P"], "formula": "def _formula(i):\n    return None\n"}}}
    raise ValueError(k)


def shape_elems(shape):
    """[(instance path, cells, key)] that can be queried / armed."""
    k = shape["kind"]
    if k == "dag":
        return [("S", "e%d" % i, ()) for i in range(shape["n"])]
    if k == "rec":
        return [("S", "v", (0,)), ("S", "v", (1,)), ("S", "v", (2,)), ("S", "top", ())]
    if k == "catcher":
        return [("S", n, ()) for n in ("e0", "e1", "c", "e2", "top")]
    if k == "lambda":
        return [("S", "e0", ()), ("S", "e1", (0,)), ("S", "e1", (1,)), ("S", "e2", ()), ("S", "e3", ())]
    if k == "item":
        return [("S", "it", (1,)), ("S", "top", ()), ("P[1]", "c", ()), ("P[1]", "d", (1,)), ("P[2]", "c", ())]
    if k == "allow":
        return [("P", "c", ()), ("P[1]", "c", ()), ("P[1]", "d", (1,)), ("Q", "c", ()), ("Q[1]", "c", ())]
    raise ValueError(k)


def shape_edits(shape):
    """Edit operations of the shape's alphabet (applied to the implementation and to the reference model)."""
    if shape["kind"] == "allow":
        out = [{"op": "set_allow_none", "sp": "P", "c": "c", "v": v} for v in (True, False, None)]
        out += [{"op": "set_allow_none", "sp": "P", "v": v} for v in (True, None)]
        out += [{"op": "set_allow_none", "sp": "Q", "v": v} for v in (True, None)]
        return out
    return []


def arm_points(shape):
    """Elements that can be armed (every element + the ItemSpace node for 'item')."""
    pts = [(p + "." + c, json.dumps(render(tuple(key)))) for p, c, key in shape_elems(shape)]
    if shape["kind"] == "item":
        pts.append(("P", json.dumps(render((1,)))))
    return pts


class RefTicker:
    def __init__(self, armed):
        self.armed = armed
        self.ev = None
        self.fired = []

    def __call__(self):
        ev = self.ev
        if ev.quiet or not ev.stack:
            return 0
        elem = ev.stack[-1].elem
        kind = self.armed.get(elem)
        if kind is None:
            return 0
        if kind == "None":
            self.fired.append((elem, kind))
            return 1
        exc = FAULT_KINDS[kind]()
        self.fired.append((elem, kind))
        raise exc


class ImplTicker:
    """Behaviour of TICK extended by the 'None' kind: returns 1 for armed elements."""


def impl_tick_factory():
    # extend session.Ticker behaviour: kind "None" returns 1 instead of raising
    from mxmc.session import mxsys

    def tick():
        cs = mxsys.callstack
        if not cs:
            return 0
        node = node_name(cs[-1])
        TICK.log.append(node)
        kind = TICK.armed.get(node)
        if kind is None:
            return 0
        if kind == "None":
            TICK.fired.append((node, kind, None, [node_name(n) for n in cs]))
            return 1
        exc = FAULT_KINDS[kind]()
        TICK.fired.append((node, kind, exc, [node_name(n) for n in cs]))
        raise exc
    return tick


class FaultWorld:
    def __init__(self, shape):
        reset_world()
        self.shape = shape
        self.spec = shape_spec(shape)
        self.m, self.rm = O.build_from_spec(self.spec)
        # replace the model-level tick by the variant that knows the "None" kind
        self.m.tick = impl_tick_factory()
        if shape.get("maxdepth"):
            mx.set_recursion(shape["maxdepth"])

    def held_map(self):
        hm = {h["elem"]: h["value"] for h in held_elems(self.m)}
        for p, k, s, key in item_elems(self.m):
            hm[(p, k)] = "<itemspace>"
        return hm

    def ref_eval(self, inst, c, key, memo):
        rt = RefTicker(dict(TICK.armed))
        ev = Evaluator(self.rm, tick=rt, memo=memo, maxdepth=self.shape.get("maxdepth"))
        rt.ev = ev
        r = ev.eval(inst, c, key)
        return r, rt, ev


def ref_frames(exc):
    """[(lineno)] of the formula frames of the reference evaluation, outermost first:
    the first '<ref>' frame after each evaluator 'call' / 'item' frame."""
    out = []
    flag = False
    for fs in traceback.extract_tb(exc.__traceback__):
        if fs.filename.endswith("refsem.py") and fs.name in ("call", "item"):
            flag = True
        elif fs.filename == "<ref>" and flag:
            out.append(fs.lineno)
            flag = False
    return out
