"""Runner: parallel exhaustive enumeration of work items, violation handling (shrink, signature,
known findings, replay artefacts, determinism gate) and evidence files.

A *driver* is a module exposing

    PROPERTY : str                      e.g. "C16"
    LEVEL    : str                      evidence level ("model_checking", "exploration", ...)
    work_items(tier, seed) -> list      JSON-able, independent units of exhaustive exploration
    run_item(item, tier) -> dict        explores one item completely; returns
        {"counts": {name: int}, "outcomes": [digest,...], "samples": [...],
         "violations": [{"clause":..., "case":..., "observed":..., "expected":...}, ...]}
    check_case(case) -> list of violations       re-executes a single case (replay / shrinking)
    shrink_candidates(case) -> iterable of smaller cases      (optional)
    script(case) -> str                 stand-alone reproduction script (optional)
    coverage(agg, tier) -> dict         level-specific coverage keys from the aggregated counts
    ASSUMPTIONS : list[str]
"""
import os
import sys
import json
import time
import hashlib
import traceback
import subprocess
import multiprocessing as mp

VERIF = os.path.dirname(os.path.dirname(os.path.abspath(__file__)))
# MXMC_SCRATCH_OUT redirects evidence / replay files (used only when trying seeded changes on a scratch
# copy of the repository; the registered commands never set it)
_OUT = os.environ.get("MXMC_SCRATCH_OUT") or VERIF
EVIDENCE_DIR = os.path.join(_OUT, "evidence")
REPLAY_DIR = os.path.join(_OUT, "replays")
KNOWN_FILE = os.path.join(VERIF, "known_findings.jsonl")

NPROC = int(os.environ.get("VERIF_JOBS", "0")) or min(16, os.cpu_count() or 1)
MAX_SHRINK_PER_ITEM = 2      # violations shrunk per work item (others are still reported raw)
MAX_VIOLATIONS = 300         # stop exploring once this many violations were collected (the run has failed anyway)
MAX_REPORTED = 40            # VIOLATION lines printed


def jdump(o):
    return json.dumps(o, sort_keys=True, default=repr)


def sha8(o):
    return hashlib.sha1(jdump(o).encode()).hexdigest()[:8]


class HarnessError(Exception):
    pass


# --------------------------------------------------------------------------------------
# shrinking

def shrink(driver, viol, budget=150):
    """Greedy shrink to a fixed point: keep a candidate while the *same clause* still fails."""
    cands = getattr(driver, "shrink_candidates", None)
    if cands is None:
        return viol
    clause = viol["clause"]
    cur = viol
    changed = True
    while changed and budget > 0:
        changed = False
        for cand in cands(cur["case"]):
            budget -= 1
            if budget <= 0:
                break
            try:
                vs = driver.check_case(cand)
            except Exception:
                continue
            hit = [v for v in vs if v["clause"] == clause]
            if hit:
                cur = hit[0]
                cur["case"] = cand
                changed = True
                break
    return cur


# --------------------------------------------------------------------------------------
# worker

_DRIVER = None
_TIER = None


def _init_worker(driver_name, tier):
    global _DRIVER, _TIER
    import importlib
    _DRIVER = importlib.import_module("mxmc.drivers." + driver_name)
    _TIER = tier


def _run_item(item):
    t0 = time.time()
    try:
        res = _DRIVER.run_item(item, _TIER)
        viols = res.get("violations", [])
        out = []
        seen_sig = set()
        nshrunk = 0
        for v in viols:
            if nshrunk < MAX_SHRINK_PER_ITEM:
                try:
                    v = shrink(_DRIVER, v)
                    v["shrunk"] = True
                except Exception:
                    v["shrunk"] = False
                nshrunk += 1
            else:
                v["shrunk"] = False
            sig = (v["clause"], jdump(v["case"]))
            if sig in seen_sig:
                continue
            seen_sig.add(sig)
            out.append(v)
        res["violations"] = out
        res["wall"] = time.time() - t0
        return res
    except BaseException as e:  # harness error inside a worker
        return {"harness_error": "%s: %s\n%s" % (type(e).__name__, e, traceback.format_exc()),
                "item": item}


# --------------------------------------------------------------------------------------
# known findings

def load_known(prop):
    out = []
    if os.path.exists(KNOWN_FILE):
        for line in open(KNOWN_FILE):
            line = line.strip()
            if not line or line.startswith("#"):
                continue
            e = json.loads(line)
            if e.get("property") == prop and e.get("status") == "open":
                out.append(e)
    return out


def match_known(known, v):
    for e in known:
        if e.get("clause") == v["clause"] and jdump(e.get("signature")) == jdump(v["case"]):
            return e
    return None


# --------------------------------------------------------------------------------------
# main entry

def run(driver_name, tier, seed, quiet=False):
    import importlib
    driver = importlib.import_module("mxmc.drivers." + driver_name)
    prop = driver.PROPERTY
    t0 = time.time()
    items = driver.work_items(tier, seed)
    if seed and not getattr(driver, "KEEP_ORDER", False):
        k = seed % max(1, len(items))
        items = items[k:] + items[:k]
    agg = {"counts": {}, "outcomes": set(), "samples": [], "violations": [], "items": len(items),
           "extra": {}}
    herrs = []
    # every temporary file of this run (workers keep scratch directories that a terminated pool cannot clean up)
    # lives under one directory that is removed when the run ends
    import tempfile
    import shutil
    import atexit
    rundir = tempfile.mkdtemp(prefix="mxmc-run-")
    os.environ["TMPDIR"] = rundir
    tempfile.tempdir = rundir
    atexit.register(shutil.rmtree, rundir, True)
    ctx = mp.get_context("fork")
    nproc = min(NPROC, max(1, len(items)))
    chunks = max(1, min(8, len(items) // (nproc * 16) or 1))
    with ctx.Pool(nproc, initializer=_init_worker, initargs=(driver_name, tier)) as pool:
        for res in pool.imap_unordered(_run_item, items, chunksize=chunks):
            if "harness_error" in res:
                herrs.append(res)
                continue
            for k2, n in res.get("counts", {}).items():
                agg["counts"][k2] = agg["counts"].get(k2, 0) + n
            agg["outcomes"].update(res.get("outcomes", ()))
            if len(agg["samples"]) < 6:
                agg["samples"].extend(res.get("samples", [])[:2])
            agg["violations"].extend(res.get("violations", []))
            if len(agg["violations"]) >= MAX_VIOLATIONS:
                agg["extra"]["stopped_early_after_violations"] = len(agg["violations"])
                pool.terminate()
                break
            for k2, v in res.get("extra", {}).items():
                if isinstance(v, (int, float)):
                    agg["extra"][k2] = max(agg["extra"].get(k2, v), v)
                elif isinstance(v, list):
                    agg["extra"].setdefault(k2, [])
                    for x in v:
                        if x not in agg["extra"][k2] and len(agg["extra"][k2]) < 50:
                            agg["extra"][k2].append(x)
                else:
                    agg["extra"][k2] = v
    if herrs:
        for h in herrs[:3]:
            sys.stderr.write("HARNESS ERROR in item %s\n%s\n" % (jdump(h["item"])[:300], h["harness_error"]))
        sys.stderr.write("%d harness errors\n" % len(herrs))
        return 2

    # --- violations: dedupe, known findings, replay artefacts -----------------------------
    known = load_known(prop)
    uniq = {}
    for v in agg["violations"]:
        uniq.setdefault((v["clause"], jdump(v["case"])), v)
    reported = []
    known_hit = {}
    for (clause, _), v in sorted(uniq.items(), key=lambda kv: (len(kv[0][1]), kv[0])):
        e = match_known(known, v)
        if e is None and not v.get("shrunk"):
            v2 = shrink(driver, v)
            e = match_known(known, v2)
            if e is None:
                v = v2
        if e is not None:
            known_hit.setdefault(e["what"], 0)
            known_hit[e["what"]] += 1
            continue
        key = (v["clause"], jdump(v["case"]))
        if key in [(r["clause"], jdump(r["case"])) for r in reported]:
            continue
        reported.append(v)
    for what, n in known_hit.items():
        print("KNOWN-FINDING: property=%s %s" % (prop, what))
    os.makedirs(REPLAY_DIR, exist_ok=True)
    nprinted = 0
    for v in reported:
        rec = {"property": prop, "clause": v["clause"], "case": v["case"],
               "observed": v.get("observed"), "expected": v.get("expected"),
               "detail": v.get("detail")}
        if hasattr(driver, "script"):
            try:
                rec["script"] = driver.script(v["case"])
            except Exception as e:  # pragma: no cover
                rec["script"] = "# script generation failed: %r" % (e,)
        path = os.path.join(REPLAY_DIR, "%s-%s.json" % (prop, sha8([v["clause"], v["case"]])))
        with open(path, "w") as f:
            json.dump(rec, f, indent=1, sort_keys=True, default=repr)
        if nprinted < MAX_REPORTED:
            # determinism gate: the replay must fail again in a fresh interpreter
            if nprinted < 3 and not os.environ.get("VERIF_NO_GATE"):
                rc = subprocess.run([sys.executable, os.path.join(VERIF, "check"), prop, "--replay", path,
                                     "--quiet"], stdout=subprocess.PIPE, stderr=subprocess.PIPE).returncode
                if rc != 1:
                    sys.stderr.write("HARNESS ERROR: violation %s does not reproduce in a fresh interpreter "
                                     "(rc=%s)\n" % (path, rc))
                    return 2
            print("VIOLATION property=%s replay=%s" % (prop, path))
            if not quiet:
                print("  clause=%s observed=%s expected=%s" % (
                    v["clause"], jdump(v.get("observed"))[:200], jdump(v.get("expected"))[:200]))
            nprinted += 1
    if len(reported) > nprinted:
        print("... %d more violations (replay files written)" % (len(reported) - nprinted))

    # --- evidence ---------------------------------------------------------------------------
    wall = time.time() - t0
    cov = driver.coverage(agg, tier)
    if agg["extra"].get("stopped_early_after_violations"):
        cov["exhaustive"] = False       # the run was cut short after many violations
    cov.setdefault("samples", agg["samples"][:6])
    cov.setdefault("work_items", len(items))
    cov.setdefault("distinct_outcomes", len(agg["outcomes"]))
    cov.setdefault("counts", agg["counts"])
    cov.setdefault("known_findings_hit", known_hit)
    if agg["extra"]:
        cov.setdefault("extra", agg["extra"])
    ev = {"property_id": prop, "tier": tier, "seed": int(seed), "level": driver.LEVEL,
          "coverage": cov, "assumptions": list(getattr(driver, "ASSUMPTIONS", [])),
          "wall_s": round(wall, 2), "violations": len(reported)}
    os.makedirs(EVIDENCE_DIR, exist_ok=True)
    with open(os.path.join(EVIDENCE_DIR, prop + ".json"), "w") as f:
        json.dump(ev, f, indent=1, sort_keys=True, default=repr)
    # vacuity guards
    vac = getattr(driver, "vacuity", None)
    if vac is not None and not agg["extra"].get("stopped_early_after_violations"):
        msg = vac(agg, tier)
        if msg:
            sys.stderr.write("HARNESS ERROR (vacuous exploration): %s\n" % msg)
            return 2
    if not quiet:
        print("%s tier=%s items=%d wall=%.1fs counts=%s outcomes=%d violations=%d known=%d" % (
            prop, tier, len(items), wall, jdump(agg["counts"]), len(agg["outcomes"]),
            len(reported), sum(known_hit.values())))
    return 1 if reported else 0


def replay(driver_name, path, quiet=False):
    import importlib
    driver = importlib.import_module("mxmc.drivers." + driver_name)
    rec = json.load(open(path))
    vs = driver.check_case(rec["case"])
    hit = [v for v in vs if v["clause"] == rec["clause"]] or vs
    if hit:
        print("VIOLATION property=%s replay=%s" % (driver.PROPERTY, path))
        if not quiet:
            for v in hit[:3]:
                print("  clause=%s observed=%s expected=%s" % (
                    v["clause"], jdump(v.get("observed"))[:300], jdump(v.get("expected"))[:300]))
        return 1
    if not quiet:
        print("replay %s: no violation" % path)
    return 0
