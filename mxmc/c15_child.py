"""C15 subprocess side: import exported packages WITHOUT modelx and evaluate query expressions.

Run as a script:   python -B c15_child.py JOB.json OUT.jsonl

JOB  = {"root": <dir put on sys.path>, "pkgs": [{"name": <package name>, "queries": [<expr>, ...]}, ...]}
OUT  = one JSON line per package, flushed as soon as the package is done:
       {"name", "import_error": null | [exc type, message], "table": {expr: [status, value]},
        "modelx_attempts": [names of blocked import attempts], "modelx_loaded": bool}

A query expression is evaluated with ``m`` bound to ``<package>.mx_model``.

This file must never import modelx (the driver imports it as a module only for ``render``).
"""
import sys
import json

MODELX_ATTEMPTS = []


class _BlockModelx:
    """Meta-path finder: any attempt to import modelx (or a submodule) fails and is recorded."""

    def find_spec(self, fullname, path=None, target=None):
        if fullname == "modelx" or fullname.startswith("modelx."):
            MODELX_ATTEMPTS.append(fullname)
            raise ImportError("import of %s is blocked (C15 no-modelx harness)" % fullname)
        return None

    def invalidate_caches(self):
        pass


def render(v, depth=0):
    """JSON-able, type-tagged, id()-free rendering of a value (same code on both sides)."""
    t = type(v).__name__
    if v is None or type(v) in (bool, int, str):
        return [t, v]
    if type(v) is float:
        return [t, repr(v)]
    if depth > 6:
        return ["deep", t]
    if type(v) in (list, tuple):
        return [t, [render(x, depth + 1) for x in v]]
    if type(v) in (set, frozenset):
        return [t, sorted((render(x, depth + 1) for x in v), key=repr)]
    if type(v) is dict:
        return [t, sorted(([render(k, depth + 1), render(x, depth + 1)] for k, x in v.items()), key=repr)]
    if t in ("Series", "DataFrame"):
        try:
            return [t, v.to_json()]
        except Exception as e:  # pragma: no cover
            return [t, "unrenderable:" + type(e).__name__]
    return ["object", t]


def observe(expr, env):
    try:
        v = eval(expr, dict(env))
    except (KeyboardInterrupt, SystemExit):
        raise
    except BaseException as e:
        return ["exc", type(e).__name__, str(e)[:160]]
    return ["ok", render(v)]


class _Timeout(BaseException):
    pass


def _alarm(signum, frame):
    raise _Timeout("query time limit")


def main(argv):
    import importlib
    import signal
    job = json.load(open(argv[1]))
    sys.meta_path.insert(0, _BlockModelx())
    assert "modelx" not in sys.modules
    sys.path.insert(0, job["root"])
    signal.signal(signal.SIGALRM, _alarm)
    with open(argv[2], "w") as out:
        for p in job["pkgs"]:
            before = len(MODELX_ATTEMPTS)
            rec = {"name": p["name"], "import_error": None, "table": {}}
            signal.alarm(int(job.get("pkg_time_limit", 60)))
            try:
                try:
                    pkg = importlib.import_module(p["name"])
                    model = pkg.mx_model
                except (KeyboardInterrupt, SystemExit):
                    raise
                except _Timeout:
                    rec["import_error"] = ["Timeout", "package import exceeded the time limit"]
                    model = None
                except BaseException as e:
                    rec["import_error"] = [type(e).__name__, str(e)[:300]]
                    model = None
                if model is not None:
                    for q in p["queries"]:
                        try:
                            rec["table"][q] = observe(q, {"m": model})
                        except _Timeout:
                            rec["table"][q] = ["exc", "Timeout", "time limit"]
                            break
            except _Timeout:  # raised between the guarded regions
                rec.setdefault("import_error", ["Timeout", "time limit"])
            finally:
                signal.alarm(0)
            rec["modelx_attempts"] = MODELX_ATTEMPTS[before:]
            rec["modelx_loaded"] = any(k == "modelx" or k.startswith("modelx.") for k in sys.modules)
            out.write(json.dumps(rec) + "\n")
            out.flush()
    return 0


if __name__ == "__main__":
    sys.exit(main(sys.argv))
