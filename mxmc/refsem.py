"""Reference model of modelx *definitions* and a boring, uncached reference evaluator.

RefModel holds only definitions (spaces, ordered direct bases, parameter formulas, defined cells,
defined references, inputs).  Linearisation is taken from CPython's own C3 (``type()``);
derivation = "first definer in mro"; evaluation compiles the same formula source with a globals
dict built from the definitions, with NO memoisation, recording the call tree.

Shared with the implementation: formula source text only.
"""
import re
import json
import inspect
import builtins

from modelx.core.errors import NoneReturnedError


class NoLinearisation(Exception):
    pass


class RefError(Exception):
    """Reference semantics undefined for this request (e.g. deleted space)."""


def obj(path):
    """JSON form of an object-valued reference."""
    return {"obj": path}


def is_obj(v):
    return isinstance(v, dict) and set(v) == {"obj"}


class RCells:
    def __init__(self, src, cached=True, allow_none=None):
        self.src = src
        self.cached = cached
        self.allow_none = allow_none
        self.inputs = {}            # key tuple -> value

    def copy(self):
        c = RCells(self.src, self.cached, self.allow_none)
        c.inputs = dict(self.inputs)
        return c


class RSpace:
    def __init__(self, name, formula=None):
        self.name = name
        self.bases = []             # ordered direct bases (paths)
        self.formula = formula      # parameter formula source or None
        self.refs = {}              # name -> (value, mode)
        self.cells = {}             # name -> RCells  (defined only)
        self.children = {}          # name -> RSpace
        self.allow_none = None


def split_path(path):
    return path.split(".") if path else []


class RefModel:
    def __init__(self):
        self.refs = {}              # model-level refs: name -> value
        self.spaces = {}
        self.allow_none = False

    # ---- structure -------------------------------------------------------------------
    def has_space(self, path):
        try:
            self.space(path)
            return True
        except KeyError:
            return False

    def space(self, path):
        parts = split_path(path)
        cur = self.spaces[parts[0]]
        for p in parts[1:]:
            cur = cur.children[p]
        return cur

    def parent_container(self, path):
        parts = split_path(path)
        if len(parts) == 1:
            return self.spaces
        return self.space(".".join(parts[:-1])).children

    def all_paths(self):
        out = []
        def rec(prefix, d):
            for n, s in d.items():
                p = prefix + n
                out.append(p)
                rec(p + ".", s.children)
        rec("", self.spaces)
        return out

    def new_space(self, path, bases=(), formula=None):
        parts = split_path(path)
        s = RSpace(parts[-1], formula)
        s.bases = list(bases)
        self.parent_container(path)[parts[-1]] = s
        return s

    def del_space(self, path):
        dead = [p for p in self.all_paths() if p == path or p.startswith(path + ".")]
        del self.parent_container(path)[split_path(path)[-1]]
        for p in self.all_paths():
            sp = self.space(p)
            sp.bases = [b for b in sp.bases if b not in dead]
        return dead

    def rename_space(self, path, new):
        parts = split_path(path)
        cont = self.parent_container(path)
        items = list(cont.items())
        cont.clear()
        for n, s in items:
            if n == parts[-1]:
                s.name = new
                cont[new] = s
            else:
                cont[n] = s
        newpath = ".".join(parts[:-1] + [new])
        def fix(b):
            if b == path:
                return newpath
            if b.startswith(path + "."):
                return newpath + b[len(path):]
            return b
        for p in self.all_paths():
            sp = self.space(p)
            sp.bases = [fix(b) for b in sp.bases]
            for n, (v, mode) in list(sp.refs.items()):
                if is_obj(v):
                    sp.refs[n] = (obj(fix(v["obj"])), mode)
        return newpath

    # ---- linearisation (CPython C3) ---------------------------------------------------
    def mro(self, path):
        """[path] + linearised bases, or raise NoLinearisation."""
        classes = {}
        visiting = set()

        def cls(p):
            if p in classes:
                return classes[p]
            if p in visiting:
                raise NoLinearisation("cycle at %s" % p)
            visiting.add(p)
            bs = tuple(cls(b) for b in self.space(p).bases)
            try:
                c = type(p, bs, {"_p": p})
            except TypeError as e:
                raise NoLinearisation(str(e))
            visiting.discard(p)
            classes[p] = c
            return c
        c = cls(path)
        return [k._p for k in c.__mro__ if k is not object]

    def subs(self, path):
        """All spaces having path in their mro (excluding itself)."""
        out = []
        for p in self.all_paths():
            if p != path:
                try:
                    if path in self.mro(p):
                        out.append(p)
                except NoLinearisation:
                    pass
        return out

    # ---- derivation -------------------------------------------------------------------
    def cells_of(self, path):
        """name -> (definer path, RCells) for own + derived cells."""
        out = {}
        for p in self.mro(path):
            for n, c in self.space(p).cells.items():
                if n not in out:
                    out[n] = (p, c)
        return out

    def refs_of(self, path):
        """name -> (definer path, value, mode) for own + derived refs."""
        out = {}
        for p in self.mro(path):
            for n, (v, mode) in self.space(p).refs.items():
                if n not in out:
                    out[n] = (p, v, mode)
        return out

    def allow_none_of(self, path, cname):
        definer, c = self.cells_of(path)[cname]
        if c.allow_none is not None:
            return c.allow_none
        parts = split_path(path)
        while parts:
            s = self.space(".".join(parts))
            if s.allow_none is not None:
                return s.allow_none
            parts.pop()
        return bool(self.allow_none)


# ------------------------------------------------------------------------------------------
# evaluator

def inst_repr(path, items):
    """Render an instance path the way modelx reprs it: P[1].T, P[1, 0].Q[2]."""
    return path_of(items)


def path_of(steps):
    """steps: list of ("s", name) / ("i", argtuple) -> 'P[1].T'"""
    out = ""
    for kind, v in steps:
        if kind == "s":
            out += ("." if out else "") + v
        else:
            out += "[%s]" % ", ".join(repr(a) for a in v)
    return out


_STEP = re.compile(r"([A-Za-z_][A-Za-z_0-9]*)|\[([^\]]*)\]")


def parse_path(path):
    """'P[1].T' -> [("s","P"),("i",(1,)),("s","T")]"""
    steps = []
    for m in _STEP.finditer(path):
        if m.group(1):
            steps.append(("s", m.group(1)))
        else:
            inner = m.group(2).strip()
            args = eval("(" + inner + ",)") if inner else ()
            steps.append(("i", tuple(args)))
    return steps


class CallNode:
    __slots__ = ("elem", "children", "cached", "is_input", "reads", "value", "failed")

    def __init__(self, elem, cached):
        self.elem = elem            # (instance path + "." + cells name, key-json)
        self.children = []
        self.cached = cached
        self.is_input = False
        self.reads = set()
        self.value = None
        self.failed = False


class Instance:
    """A static space or an ItemSpace (or a child of one) as seen by the evaluator."""

    def __init__(self, ev, steps, defpath, bound, extra_refs, root=None):
        self.ev = ev
        self.steps = steps              # instance path steps
        self.defpath = defpath          # path of the static space providing the definitions
        self.bound = bound              # {param: value} visible here (own + outer items)
        self.extra_refs = extra_refs    # refs returned by the parameter formula
        self.root = root                # innermost ItemSpace root Instance (None if static)
        self._ns = None

    @property
    def path(self):
        return path_of(self.steps)

    def is_dynamic(self):
        return self.root is not None

    def namespace(self):
        if self._ns is not None:
            return self._ns
        ev, rm = self.ev, self.ev.rm
        ns = {}
        ns["__builtins__"] = builtins
        for n, v in rm.refs.items():
            ns[n] = ev.ref_value(v, self, None)
        refs = rm.refs_of(self.defpath)
        for n, (definer, v, mode) in refs.items():
            ns[n] = ev.ref_value(v, self, (definer, mode))
        ns["_self"] = ns["_space"] = SpaceProxy(ev, self)
        ns["_model"] = ModelProxy(ev)
        for n, v in self.extra_refs.items():
            ns[n] = v
        for n, v in self.bound.items():
            ns[n] = v
        for n in rm.space(self.defpath).children:
            ns[n] = SpaceProxy(ev, self.child(n))
        for n in rm.cells_of(self.defpath):
            ns[n] = CellsProxy(ev, self, n)
        self._ns = ns
        return ns

    def child(self, name):
        return Instance(self.ev, self.steps + [("s", name)], self.defpath + "." + name,
                        self.bound if self.is_dynamic() else {}, {},
                        self.root)

    def item(self, args, kwargs):
        ev, rm = self.ev, self.ev.rm
        sp = rm.space(self.defpath)
        if sp.formula is None:
            raise RefError("no parameter formula")
        fn = ev.compile(sp.formula, "_formula", self.namespace())
        sig = inspect.signature(fn)
        ba = sig.bind(*args, **(kwargs or {}))
        ba.apply_defaults()
        key = tuple(ba.arguments.values())
        hit = ev.item_cache.get((self.path, key))
        if hit is not None:
            # created earlier in this evaluation: like modelx, the parameter formula is not run again
            node = ev.push(self.path, key, cached=True, kind="space", leaf=True)
            node.is_input = True
            ev.pop()
            return hit
        node = ev.push(self.path, key, cached=True, kind="space")
        if node.elem in ev.memo:
            # the ItemSpace already exists: its parameter formula is not run again (re-derive the
            # parameters quietly: no faults, no call-tree entries)
            ev.quiet += 1
            try:
                params = fn(*key)
            finally:
                ev.quiet -= 1
            node.is_input = True
            node.children = []
        else:
            try:
                params = fn(*key)
            except BaseException as e:
                if not hasattr(e, "_ref_stack"):
                    try:
                        e._ref_stack = [n.elem for n in ev.stack]
                    except Exception:
                        pass
                ev.pop(failed=True)
                raise
        ev.pop()
        base = self.defpath
        extra = {}
        if params is not None:
            if "base" in params:
                b = params["base"]
                if not isinstance(b, SpaceProxy):
                    raise RefError("base must be a space")
                base = b.inst.defpath
            extra = dict(params.get("refs") or {})
        bound = dict(self.bound) if self.is_dynamic() else {}
        bound.update(ba.arguments)
        steps = self.steps + [("i", key)]
        it = Instance(ev, steps, base, bound, extra, None)
        it.root = it
        ev.item_cache[(self.path, key)] = it
        return it


class ModelProxy:
    def __init__(self, ev):
        self._ev = ev

    def __getattr__(self, name):
        ev = self._ev
        if name in ev.rm.spaces:
            return SpaceProxy(ev, ev.static(name))
        if name in ev.rm.refs:
            ev.note_read("", name)
            return ev.ref_value(ev.rm.refs[name], None, None)
        raise AttributeError(name)


class SpaceProxy:
    def __init__(self, ev, inst):
        self.__dict__["_ev"] = ev
        self.__dict__["inst"] = inst

    def __getattr__(self, name):
        ns = self.inst.namespace()
        if name in ns and name != "__builtins__":
            self._ev.note_read(self.inst.path, name)
            return ns[name]
        raise AttributeError(name)

    def __getitem__(self, key):
        if not isinstance(key, tuple):
            key = (key,)
        return SpaceProxy(self._ev, self.inst.item(key, None))

    def __call__(self, *args, **kwargs):
        return SpaceProxy(self._ev, self.inst.item(args, kwargs))

    def __eq__(self, other):
        return isinstance(other, SpaceProxy) and other.inst.path == self.inst.path

    def __hash__(self):
        return hash(self.inst.path)


class CellsProxy:
    def __init__(self, ev, inst, name):
        self.ev, self.inst, self.name = ev, inst, name

    def __call__(self, *args, **kwargs):
        return self.ev.call(self.inst, self.name, args, kwargs)

    def __getitem__(self, key):
        if not isinstance(key, tuple):
            key = (key,)
        return self.ev.call(self.inst, self.name, key, {})

    @property
    def value(self):
        return self.ev.call(self.inst, self.name, (), {})

    def __eq__(self, other):
        return isinstance(other, CellsProxy) and (other.inst.path, other.name) == (self.inst.path, self.name)

    def __hash__(self):
        return hash((self.inst.path, self.name))


def keyjson(key):
    from mxmc.session import render
    return json.dumps(render(tuple(key)))


class Evaluator:
    """Uncached reference evaluation with call-tree recording.

    ``tick`` (callable or None) replaces the model-level reference of that name.
    """

    def __init__(self, rm, tick=None, maxdepth=None, memo=None):
        self.rm = rm
        self.tick = tick
        self.stack = []
        self.roots = []
        self.maxdepth = maxdepth
        self.memo = memo or {}      # elem -> value : elements treated as already held (leaves)
        self.quiet = 0
        self.item_cache = {}        # ItemSpaces created during the current top-level evaluation
        self._static = {}
        self._code = {}

    # -- instances
    def static(self, path):
        if path not in self._static:
            if not self.rm.has_space(path):
                raise RefError("no space " + path)
            self._static[path] = Instance(self, [("s", p) for p in split_path(path)], path, {}, {}, None)
        return self._static[path]

    def instance(self, path):
        """Instance for an instance path such as 'P[1].T'."""
        inst = None
        for kind, v in parse_path(path):
            if kind == "s":
                if inst is None:
                    inst = self.static(v)
                elif inst.is_dynamic():
                    if v not in self.rm.space(inst.defpath).children:
                        raise RefError("no space " + path)
                    inst = inst.child(v)
                else:
                    inst = self.static(inst.defpath + "." + v)
            else:
                inst = inst.item(v, None)
        return inst

    # -- values of references
    def ref_value(self, v, inst, origin):
        if v == "<tick>":
            return self.tick if callable(self.tick) else (lambda: 0)
        if is_obj(v):
            return self.resolve_obj(v["obj"], inst, origin)
        return v

    def resolve_obj(self, path, inst, origin):
        """Object-valued reference -> proxy.  Relative rebinding inside a dynamic tree only
        (static relative rebinding is decided by the C10 driver's closed-form rule)."""
        parts = split_path(path)
        if inst is not None and inst.is_dynamic() and origin is not None and origin[1] != "absolute":
            # root of the dynamic tree corresponds to the static base tree of the root ItemSpace
            root_inst = inst.root
            rootdef = root_inst.defpath
            if path == rootdef or path.startswith(rootdef + "."):
                rel = path[len(rootdef):].lstrip(".")
                cur = root_inst
                relparts = split_path(rel)
                for i, p in enumerate(relparts):
                    if p in self.rm.space(cur.defpath).children:
                        cur = cur.child(p)
                    else:
                        return CellsProxy(self, cur, p)
                return SpaceProxy(self, cur)
        # absolute
        if self.rm.has_space(path):
            return SpaceProxy(self, self.static(path))
        sp = ".".join(parts[:-1])
        return CellsProxy(self, self.static(sp), parts[-1])

    # -- compilation
    def compile(self, src, name, ns):
        code = self._code.get(src)
        if code is None:
            s = src.strip()
            if s.startswith("lambda") or not s.startswith("def"):
                code = ("lambda", compile(s, "<ref>", "eval"))
            else:
                code = ("def", compile(src, "<ref>", "exec"))
            self._code[src] = code
        kind, co = code
        if kind == "lambda":
            return eval(co, ns)
        loc = {}
        exec(co, ns, loc)
        fns = [v for v in loc.values() if inspect.isfunction(v)]
        return fns[0]

    # -- call tree
    def push(self, instpath, key, cached, kind="cells", name=None, leaf=False):
        if self.maxdepth is not None and len(self.stack) > self.maxdepth and not leaf:
            from modelx.core.errors import DeepReferenceError
            e = DeepReferenceError("ref: formula chain exceeded")
            e._ref_stack = [n.elem for n in self.stack]
            raise e
        elem = ((instpath + "." + name) if name else instpath, keyjson(key))
        node = CallNode(elem, cached)
        if self.stack:
            self.stack[-1].children.append(node)
        else:
            self.roots.append(node)
        self.stack.append(node)
        return node

    def pop(self, failed=False):
        n = self.stack.pop()
        n.failed = failed
        return n

    def note_read(self, spacepath, name):
        if self.stack:
            self.stack[-1].reads.add((spacepath, name))

    def call(self, inst, cname, args, kwargs):
        rm = self.rm
        definer, c = rm.cells_of(inst.defpath)[cname]
        ns = inst.namespace()
        fn = self.compile(c.src, cname, ns)
        sig = inspect.signature(fn)
        ba = sig.bind(*args, **kwargs)
        ba.apply_defaults()
        key = tuple(ba.arguments.values())
        # inputs belong to the space that holds them: static space's own/derived cells each have
        # their own inputs; tracked per (instance path, cells)
        inputs = self.inputs_of(inst, cname)
        elem0 = (inst.path + "." + cname, keyjson(key))
        leaf = c.cached and (key in inputs or elem0 in self.memo)
        node = self.push(inst.path, key, c.cached, name=cname, leaf=leaf)
        try:
            if c.cached and key in inputs:
                node.is_input = True
                v = inputs[key]
            elif c.cached and node.elem in self.memo:
                node.is_input = True
                v = self.memo[node.elem]
            else:
                if c.cached:
                    hash(key)
                v = fn(*key)
                if v is None and not rm.allow_none_of(inst.defpath, cname) and c.cached:
                    raise NoneReturnedError("ref")
        except BaseException as e:
            if not hasattr(e, "_ref_stack"):
                try:
                    e._ref_stack = [n.elem for n in self.stack]
                except Exception:
                    pass
            self.pop(failed=True)
            raise
        node.value = v
        self.pop()
        return v

    def inputs_of(self, inst, cname):
        if inst.is_dynamic():
            return self.dyn_inputs.get((inst.path, cname), {}) if hasattr(self, "dyn_inputs") else {}
        sp = self.rm.space(inst.defpath)
        if cname in sp.cells:
            return sp.cells[cname].inputs
        return getattr(self, "derived_inputs", {}).get((inst.defpath, cname), {})

    # -- entry point
    def eval(self, instpath, cname, args=(), kwargs=None):
        """Returns ("ok", value, tree) or ("exc", exception, tree)."""
        self.stack, self.roots = [], []
        self.item_cache = {}
        try:
            inst = self.instance(instpath)
            v = self.call(inst, cname, tuple(args), dict(kwargs or {}))
            return ("ok", v, self.roots)
        except (KeyboardInterrupt, SystemExit):
            raise
        except BaseException as e:
            return ("exc", e, self.roots)


def tree_elems(roots, cached_only=False):
    out = []
    def rec(n):
        if not cached_only or n.cached:
            out.append(n.elem)
        for ch in n.children:
            rec(ch)
    for r in roots:
        rec(r)
    return out


def direct_cached_preds(node):
    """Cached elements reached from node directly or through uncached cells; plus uncached cells names."""
    preds, unc = set(), set()
    def rec(n):
        for ch in n.children:
            if ch.cached:
                preds.add(ch.elem)
            else:
                unc.add(ch.elem[0])
                rec(ch)
    rec(node)
    return preds, unc
