"""File-system fault injection for C14 (harness side only; nothing in /repo is touched).

One audit hook per process (audit hooks cannot be removed) whose behaviour is driven by the
module-global controller ``CTL`` - disarmed by default, and only looking at absolute paths
below the current scratch root.  In addition (all monkeypatches live in the harness process):

* ``io.open`` / ``builtins.open`` return a thin proxy for *write* handles on files below the
  scratch root, so that every Python-level ``write`` is a fault point (before / torn);
* the two pickler classes and the two unpickler classes used by serializer_6 are replaced by
  subclasses whose ``dump`` / ``load`` are fault points;
* ``shutil._USE_CP_SENDFILE`` is switched off so that the copy inside ``shutil.move`` writes
  through ``write`` (visible to the proxy) instead of ``os.sendfile``;
* ``modelx.serialize.ziputil.time`` is replaced by a stub whose ``sleep`` is a no-op.

A *fault point* is one call of ``CTL.point(kind, detail)``; points are numbered 0.. in the
order in which the operation under test performs them.  ``CTL.mode``:

    "off"    nothing is counted, nothing fails (harness' own file operations)
    "count"  points are numbered and named, nothing fails (pass 1)
    "arm"    points are numbered; the points listed in ``CTL.arm`` fail (pass 2)
"""
import builtins
import errno
import io
import os
import pickle
import re
import shutil
import sys
import types

ERRNOS = {"ENOSPC": errno.ENOSPC, "EACCES": errno.EACCES, "EIO": errno.EIO}

# audited events that are fault points, with the positions of their path arguments
EVENTS = {
    "open": (0,),
    "os.mkdir": (0,), "os.rmdir": (0,), "os.remove": (0,), "os.rename": (0, 1),
    "os.scandir": (0,), "os.listdir": (0,), "os.walk": (0,),
    "os.chmod": (0,), "os.utime": (0,), "os.truncate": (0,), "os.link": (0, 1), "os.symlink": (0, 1),
    "shutil.move": (0, 1), "shutil.rmtree": (0,), "shutil.copyfile": (0, 1),
    "shutil.copymode": (0, 1), "shutil.copystat": (0, 1), "shutil.copytree": (0, 1),
    "tempfile.mkdtemp": (0,), "tempfile.mkstemp": (0,),
}
# kinds with a defined partial effect ("torn": part of the effect happens, then the error)
TORN_KINDS = ("write", "dump", "shutil.rmtree")

_STDLIB_FUNCS = {
    "shutil.py": {"move": "shutil.move", "copyfile": "shutil.copyfile", "copy2": "shutil.copy2",
                  "copystat": "shutil.copystat", "rmtree": "shutil.rmtree", "copyfileobj": None},
    "tempfile.py": {"cleanup": "tempdir.cleanup", "mkdtemp": "tempfile.mkdtemp", "__init__": None,
                    "__exit__": "tempdir.cleanup"},
    "__init__.py": {"writestr": "zip.writestr", "write": "zip.write", "close": "zip.close",
                    "_write_end_record": "zip.end_record", "__init__": "zip.open", "extract": "zip.extract",
                    "is_zipfile": "is_zipfile", "open": "zip.member"},
    "pathlib.py": {"mkdir": "Path.mkdir", "rename": "Path.rename", "unlink": "Path.unlink", "open": "Path.open"},
    "os.py": {"walk": "os.walk", "makedirs": "os.makedirs"},
}
_TOPLEVEL = {"write_model", "read_model", "_read_model_inner", "zip_model", "write", "zip", "<module>"}


class InjectedOSError(OSError):
    pass


def make_exc(err, what):
    code = ERRNOS[err]
    if err == "EACCES":
        return PermissionError(code, "injected " + os.strerror(code), what)
    return OSError(code, "injected " + os.strerror(code), what)


class Controller:
    def __init__(self):
        self.root = None
        self.mode = "off"
        self.reset()

    def reset(self):
        self.n = 0
        self.log = []          # names of the points (count mode: all; arm mode: only fired ones)
        self.arm = {}          # index -> {"mode": "before"|"torn", "err": "ENOSPC"}
        self.fired = []        # [(index, name, mode, err)]
        self.env = None        # "exdev": os.rename inside shutil.move answers EXDEV
        self.env_answers = 0
        self.move_src = None

    # -- naming ---------------------------------------------------------------------------
    def rel(self, p):
        r = self.root
        if r and (p == r or p.startswith(r + "/")):
            p = p[len(r):].lstrip("/") or "."
        return re.sub(r"\btmp[a-z0-9_]{8}\b", "<tmp>", p)

    def where(self):
        """'stage>inner>stdlib' chain of the code performing the operation (frame inspection)."""
        f = sys._getframe(2)
        mx_names = []
        std = []
        while f is not None:
            fn = f.f_code.co_filename
            nm = f.f_code.co_name
            if "/modelx/" in fn:
                if nm not in ("<lambda>", "callback", "write_dataid", "open_path", "custom_load", "compat_load"):
                    mx_names.append(nm)
            elif not mx_names:
                base = os.path.basename(fn)
                tab = _STDLIB_FUNCS.get(base)
                if tab and nm in tab and tab[nm] and ("zipfile" in fn or base != "__init__.py"):
                    std.append(tab[nm])
            f = f.f_back
        # mx_names: innermost first
        names = [n for n in mx_names if n not in _TOPLEVEL]
        stage = names[-1] if names else "top"
        inner = names[0] if names else stage
        chain = [stage]
        if inner != stage:
            chain.append(inner)
        if std:
            chain.append(std[-1])
            if std[0] != std[-1]:
                chain.append(std[0])
        return ">".join(chain)

    # -- the fault point ------------------------------------------------------------------
    def point(self, kind, detail):
        """Number this operation; return None (go ahead) or the armed fault spec."""
        if self.mode == "off":
            return None
        idx = self.n
        self.n += 1
        if self.mode == "count":
            self.log.append("%s %s @%s" % (kind, detail, self.where()))
            return None
        a = self.arm.get(idx)
        if a is None:
            return None
        name = "%s %s @%s" % (kind, detail, self.where())
        self.fired.append((idx, name, a["mode"], a["err"]))
        return a


CTL = Controller()


def _norm_path(a):
    try:
        a = os.fspath(a)
    except TypeError:
        return None
    if isinstance(a, bytes):
        try:
            a = a.decode()
        except UnicodeDecodeError:
            return None
    if not isinstance(a, str) or not a.startswith("/"):
        return None
    return a


def _under(p):
    r = CTL.root
    return r is not None and (p == r or p.startswith(r + "/"))


def _partial_rmtree(path):
    """Torn rmtree: remove the first half of the files (at least one), keep the rest."""
    files = []
    for d, _, fs in os.walk(path):
        for f in fs:
            files.append(os.path.join(d, f))
    files.sort()
    for f in files[:max(1, len(files) // 2)]:
        os.remove(f)


def _hook(event, args):
    if CTL.mode == "off":
        return
    pos = EVENTS.get(event)
    if pos is None:
        return
    paths = []
    hit = False
    for i in pos:
        if i < len(args):
            p = _norm_path(args[i])
            if p is not None:
                paths.append(p)
                hit = hit or _under(p)
    if not hit:
        return
    if event == "open":
        md = args[1] if len(args) > 1 else None
        kind = "open(%s)" % (md if isinstance(md, str) else "fd")
    else:
        kind = event
    # environment answer: rename inside shutil.move crosses a file-system boundary
    if event == "shutil.move":
        CTL.move_src = paths[0] if paths else None
    elif event == "os.rename" and CTL.env == "exdev" and CTL.move_src is not None and paths \
            and paths[0] == CTL.move_src:
        CTL.move_src = None
        CTL.env_answers += 1
        raise OSError(errno.EXDEV, "Invalid cross-device link (environment answer)", paths[0])
    a = CTL.point(kind, "->".join(CTL.rel(p) for p in paths))
    if a is None:
        return
    if a["mode"] == "torn" and event == "shutil.rmtree":
        saved = CTL.mode
        CTL.mode = "off"
        try:
            _partial_rmtree(paths[0])
        finally:
            CTL.mode = saved
    raise make_exc(a["err"], paths[0])


class WriteProxy:
    """Write handle whose write() calls are fault points."""

    def __init__(self, f, path):
        object.__setattr__(self, "_f", f)
        object.__setattr__(self, "_p", path)

    def write(self, data):
        a = CTL.point("write", CTL.rel(self._p))
        if a is None:
            return self._f.write(data)
        if a["mode"] == "torn":
            half = data[:len(data) // 2]
            try:
                self._f.write(half)
                self._f.flush()
            except Exception:
                pass
        raise make_exc(a["err"], self._p)

    def writelines(self, lines):
        for ln in lines:
            self.write(ln)

    def __getattr__(self, name):
        return getattr(self._f, name)

    def __setattr__(self, name, value):
        setattr(self._f, name, value)

    def __enter__(self):
        self._f.__enter__()
        return self

    def __exit__(self, *exc):
        return self._f.__exit__(*exc)

    def __iter__(self):
        return iter(self._f)

    def __next__(self):
        return next(self._f)


_real_open = io.open


def _open(file, mode="r", *args, **kwargs):
    f = _real_open(file, mode, *args, **kwargs)
    if CTL.mode != "off" and isinstance(mode, str) and any(c in mode for c in "wax+"):
        p = _norm_path(file) if not isinstance(file, int) else None
        if p is not None and _under(p):
            return WriteProxy(f, p)
    return f


_INSTALLED = False


def install():
    """Idempotent; called once per process before the first scenario."""
    global _INSTALLED
    if _INSTALLED:
        return
    _INSTALLED = True
    sys.addaudithook(_hook)
    io.open = _open
    builtins.open = _open
    shutil._USE_CP_SENDFILE = False
    from modelx.serialize import serializer_6 as s6, ziputil
    ziputil.time = types.SimpleNamespace(sleep=lambda s: None)

    def faulty_pickler(base, label):
        class P(base):
            def __init__(self, file, *a, **k):
                super().__init__(file, *a, **k)
                self._c14_file = file
                self._c14_args = (a, k)

            def dump(self, obj):
                a = CTL.point("dump", label)
                if a is None:
                    return super().dump(obj)
                if a["mode"] == "torn":
                    buf = io.BytesIO()
                    saved = CTL.mode
                    CTL.mode = "off"
                    try:
                        base(buf, *self._c14_args[0], **self._c14_args[1]).dump(obj)
                    finally:
                        CTL.mode = saved
                    data = buf.getvalue()
                    # the partial payload reaches the file without being a fault point itself
                    target = self._c14_file
                    raw = getattr(target, "_f", target)
                    raw.write(data[:len(data) // 2])
                raise make_exc(a["err"], label)
        P.__name__ = base.__name__
        return P

    def faulty_unpickler(base, label):
        class U(base):
            def load(self):
                a = CTL.point("load", label)
                if a is None:
                    return super().load()
                raise make_exc(a["err"], label)
        U.__name__ = base.__name__
        return U

    s6.ModelPickler = faulty_pickler(s6.ModelPickler, "ModelPickler")
    s6.IOSpecPickler = faulty_pickler(s6.IOSpecPickler, "IOSpecPickler")
    s6.ModelUnpickler = faulty_unpickler(s6.ModelUnpickler, "ModelUnpickler")
    s6.IOSpecUnpickler = faulty_unpickler(s6.IOSpecUnpickler, "IOSpecUnpickler")
