"""Edit/eval family (C01, C02, C05, C06, C08, C09, C17): catalogue of small root models, one per
kind of dependency path from a held value to an editable thing, with their probe queries and
edit alphabets; world construction and probing on the real implementation."""
import json

import modelx as mx
from mxmc.session import reset_world, TICK, observe, digest, session_canon, held_values
from mxmc import ops as O
from mxmc.refsem import obj


def q(sp, c, *args, how="call"):
    return {"op": "q", "sp": sp, "c": c, "args": list(args), "how": how}


def set_ref(sp, n, v, mode=None):
    d = {"op": "set_ref", "sp": sp, "n": n, "v": v}
    if mode:
        d["mode"] = mode
    return d


def del_ref(sp, n):
    return {"op": "del_ref", "sp": sp, "n": n}


def set_formula(sp, c, src):
    return {"op": "set_formula", "sp": sp, "c": c, "src": src}


def set_cached(sp, c, v):
    return {"op": "set_cached", "sp": sp, "c": c, "v": v}


def new_cells(sp, c, src, cached=True):
    return {"op": "new_cells", "sp": sp, "c": c, "src": src, "cached": cached}


def del_cells(sp, c):
    return {"op": "del_cells", "sp": sp, "c": c}


def rename_cells(sp, c, new):
    return {"op": "rename_cells", "sp": sp, "c": c, "new": new}


def set_input(sp, c, args, v):
    return {"op": "set_input", "sp": sp, "c": c, "args": list(args), "v": v}


def cl(kind, sp, c, *args):
    d = {"op": kind, "sp": sp, "c": c}
    if kind == "clear_at":
        d["args"] = list(args)
    return d


def new_space(sp, n, bases=(), formula=None):
    return {"op": "new_space", "sp": sp, "n": n, "bases": list(bases), "formula": formula}


def del_space(sp, n):
    return {"op": "del_space", "sp": sp, "n": n}


def rename_space(sp, new):
    return {"op": "rename_space", "sp": sp, "new": new}


def add_bases(sp, *b):
    return {"op": "add_bases", "sp": sp, "bases": list(b)}


def remove_bases(sp, *b):
    return {"op": "remove_bases", "sp": sp, "bases": list(b)}


def set_param(sp, src):
    return {"op": "set_param", "sp": sp, "src": src}


L = "lambda x: tick() + "
MREFS = {"tick": "<tick>"}

ROOTS = {}


def root(name, spec, probes, edits, evals=None):
    spec.setdefault("refs", {})
    spec["refs"] = dict(MREFS, **spec["refs"])
    ROOTS[name] = {"name": name, "spec": spec, "probes": probes, "edits": edits,
                   "evals": evals if evals is not None else probes}


# 1. reference read by name, sibling chain; model-level fallback of the same name
root("byname",
     {"spaces": {"S": {"refs": {"r": 1},
                       "cells": {"a": L + "x + r", "f": L + "a(x) + 1"}}}},
     [q("S", "a", 0), q("S", "a", 1), q("S", "f", 0), q("S", "f", 1)],
     [set_ref("S", "r", 2), del_ref("S", "r"), set_ref("", "r", 7), del_ref("", "r"),
      set_formula("S", "a", L + "x + r + 100"), set_input("S", "a", [0], 50), set_input("S", "a", [0], 51),
      cl("clear", "S", "a"), cl("clear_at", "S", "a", 0), cl("clear_all", "S", "a"),
      set_cached("S", "a", False), set_cached("S", "a", True),
      rename_cells("S", "a", "a2"), new_cells("S", "a", L + "x + 1000"), del_cells("S", "a")],
     [q("S", "f", 0), q("S", "f", 1), q("S", "a", 0)])

# 2. attribute path to a child-space reference / cells, through an (un)cached link
root("attrpath",
     {"spaces": {"S": {"cells": {"u": L + "T.q + x", "f": L + "u(x) + 1", "g": L + "T.tc(x) + 1"},
                       "spaces": {"T": {"refs": {"q": 1}, "cells": {"tc": L + "x + q"}}}}}},
     [q("S", "u", 0), q("S", "f", 0), q("S", "f", 1), q("S", "g", 0), q("S.T", "tc", 0)],
     [set_ref("S.T", "q", 2), del_ref("S.T", "q"), set_ref("", "q", 9), del_ref("", "q"),
      set_cached("S", "u", False), set_cached("S", "u", True),
      set_cached("S.T", "tc", False),
      set_formula("S.T", "tc", L + "x + q + 100"), set_input("S.T", "tc", [0], 70),
      cl("clear_all", "S.T", "tc"),
      rename_space("S.T", "T2"), del_space("S", "T"),
      new_space("S", "T"), set_ref("S.T", "q", 5), new_cells("S.T", "tc", L + "x + q + 500"),
      del_cells("S.T", "tc"), rename_cells("S.T", "tc", "tc2")],
     [q("S", "f", 0), q("S", "g", 0), q("S", "u", 0)])

# 3. _space.r, _model.G, G by name, shadowing of a model reference by a space reference
root("sysrefs",
     {"refs": {"G": 1},
      "spaces": {"S": {"refs": {"r": 1},
                       "cells": {"gm": L + "G + x", "gp": L + "_model.G + x", "sp": L + "_space.r + x",
                                 "all": L + "gm(x) + gp(x) + sp(x)"}}}},
     [q("S", "gm", 0), q("S", "gp", 0), q("S", "sp", 0), q("S", "all", 0), q("S", "all", 1)],
     [set_ref("", "G", 2), del_ref("", "G"), set_ref("S", "G", 5), del_ref("S", "G"),
      set_ref("S", "r", 2), del_ref("S", "r"), set_ref("", "r", 8), del_ref("", "r"),
      set_cached("S", "gm", False), set_cached("S", "gp", False), set_cached("S", "sp", False),
      set_input("S", "gm", [0], 60), cl("clear", "S", "gm")],
     [q("S", "all", 0), q("S", "gm", 0), q("S", "gp", 0)])

# 4. object-valued reference to a cells of another space
root("objref",
     {"spaces": {"O": {"refs": {"w": 1}, "cells": {"c": L + "x + w", "c2": L + "x + w + 100"}},
                 "S": {"refs": {"ext": obj("O.c")},
                       "cells": {"oc": L + "ext(x)", "f": L + "oc(x) + 1"}}}},
     [q("S", "oc", 0), q("S", "f", 0), q("S", "f", 1), q("O", "c", 0)],
     [set_ref("O", "w", 2), del_ref("O", "w"), set_formula("O", "c", L + "x + w + 10"),
      set_ref("S", "ext", obj("O.c2")), set_ref("S", "ext", obj("O.c")), del_ref("S", "ext"),
      set_input("O", "c", [0], 80), cl("clear_all", "O", "c"), set_cached("O", "c", False),
      set_cached("S", "oc", False), del_cells("O", "c"), rename_cells("O", "c", "c3"),
      new_cells("O", "c", L + "x + w + 1000"), rename_space("O", "O2"), del_space("", "O")],
     [q("S", "f", 0), q("S", "oc", 0), q("O", "c", 0)])

# 5. inheritance: derived cells evaluated in the sub, reference overridden in the sub
root("inherit",
     {"spaces": {"S": {"refs": {"r": 1}, "cells": {"a": L + "x + r", "f": L + "a(x) + 1"}},
                 "Sub": {"bases": ["S"]},
                 "B2": {"refs": {"r": 5}, "cells": {"a": L + "x + r + 300"}},
                 "O2": {"refs": {"sub": obj("Sub")}, "cells": {"oa": L + "sub.a(x) + 1"}}}},
     [q("S", "f", 0), q("Sub", "f", 0), q("Sub", "a", 1), q("Sub", "a", 0), q("O2", "oa", 0)],
     [set_ref("S", "r", 2), del_ref("S", "r"), set_ref("Sub", "r", 3), del_ref("Sub", "r"),
      set_formula("S", "a", L + "x + r + 100"), set_formula("Sub", "a", L + "x + r + 200"),
      del_cells("Sub", "a"), del_cells("S", "a"), new_cells("S", "a", L + "x + r + 400"),
      remove_bases("Sub", "S"), add_bases("Sub", "S"), add_bases("Sub", "B2"), remove_bases("Sub", "B2"),
      set_cached("S", "a", False), set_input("S", "a", [0], 90), set_input("Sub", "a", [0], 91),
      set_ref("B2", "r", 6), rename_cells("S", "a", "a2")],
     [q("Sub", "f", 0), q("Sub", "a", 0), q("S", "f", 0)])

# 6. ItemSpace path: a cells reads P[x].c(); parameter formula and base definitions edited
root("itemspace",
     {"spaces": {"P": {"formula": "lambda i: None", "refs": {"r2": 1},
                       "cells": {"c": "lambda: tick() + i + r2", "d": L + "c() + x"}},
                 "S": {"refs": {"P": obj("P")},
                       "cells": {"it": L + "P[x].c()", "it2": L + "P(x).d(1)", "ir": L + "P[x].r2"}}}},
     [q("S", "it", 0), q("S", "it", 1), q("S", "it2", 1), q("S", "ir", 1), q("P[1]", "c"), q("P[1]", "d", 0)],
     [set_ref("P", "r2", 2), del_ref("P", "r2"), set_ref("", "r2", 4), del_ref("", "r2"),
      set_formula("P", "c", "lambda: tick() + i + r2 + 100"),
      set_param("P", "lambda i: {'refs': {'r2': 50}}"), set_param("P", "lambda i, j=3: None"),
      set_param("P", None),
      set_cached("P", "c", False), set_cached("S", "ir", False), {"op": "del_item", "sp": "P", "args": [1]},
      {"op": "clear_items", "sp": "P"}, new_cells("P", "e", "lambda: tick() + 5"),
      rename_cells("P", "c", "c9"), del_cells("P", "d"), rename_space("P", "P9"),
      set_input("P", "c", [], 77), {"op": "model_clear_all"}],
     [q("S", "it", 1), q("P[1]", "c"), q("P[1]", "d", 0), q("S", "it2", 1), q("S", "ir", 1)])

# 7. parameter formula that itself calls a cells and returns refs
root("paramcalls",
     {"spaces": {"S": {"refs": {"r": 1}, "cells": {"a": L + "x + r"}},
                 "P": {"formula": "lambda i: {'refs': {'k': S.a(i)}}", "refs": {"S": obj("S")},
                       "cells": {"c": "lambda: tick() + k + i"}}}},
     [q("P[0]", "c"), q("P[1]", "c"), q("S", "a", 1)],
     [set_ref("S", "r", 2), set_formula("S", "a", L + "x + r + 100"), set_input("S", "a", [1], 40),
      cl("clear_all", "S", "a"), set_cached("S", "a", False), set_cached("P", "c", False),
      del_ref("S", "r"), set_ref("", "r", 3), {"op": "clear_items", "sp": "P"},
      rename_cells("S", "a", "a2"), del_cells("S", "a"), {"op": "recalc", "v": True}],
     [q("P[1]", "c"), q("S", "a", 1)])

# 8. recursion on the argument and a default parameter
root("recursion",
     {"spaces": {"S": {"refs": {"r": 1},
                       "cells": {"rec": L + "(rec(x - 1) if x > 0 else r)",
                                 "h": "lambda x, y=1: tick() + x * 10 + y + rec(y)"}}}},
     [q("S", "rec", 0), q("S", "rec", 2), q("S", "h", 1), q("S", "h", 1, 2)],
     [set_ref("S", "r", 2), del_ref("S", "r"), set_input("S", "rec", [1], 500), cl("clear_at", "S", "rec", 1),
      cl("clear_at", "S", "rec", 0), cl("clear", "S", "rec"), cl("clear_all", "S", "rec"),
      set_formula("S", "rec", L + "(rec(x - 1) + 1 if x > 0 else r)"), set_cached("S", "rec", False),
      set_cached("S", "rec", True), set_cached("S", "h", False),
      set_input("S", "rec", [0], 600), set_input("S", "h", [1, 1], 700),
      {"op": "copy_cells", "sp": "S", "c": "rec", "to": "S", "new": "rec2"},
      cl("clear_at", "S", "rec2", 0), cl("clear_at", "S", "rec2", 1)],
     [q("S", "rec", 2), q("S", "h", 1), q("S", "rec", 0)])

# 9. a name that is a built-in: shadowed by a cells / a reference created later
root("builtin",
     {"spaces": {"S": {"cells": {"k": "lambda: tick() + max(1, 2)", "f": L + "k() + x"}}}},
     [q("S", "k"), q("S", "f", 0)],
     [new_cells("S", "max", "lambda a, b: tick() + 100"), del_cells("S", "max"),
      set_ref("S", "max", obj("S.k")), set_ref("S", "max", 5), del_ref("S", "max"),
      set_ref("", "max", 7), del_ref("", "max"),
      {"op": "set_input", "sp": "S", "c": "k", "args": [], "v": 33, "how": "value"},
      {"op": "del_value", "sp": "S", "c": "k"}, set_cached("S", "k", False),
      {"op": "set_input", "sp": "S", "c": "k", "args": [], "v": 34, "how": "attr"}],
     [q("S", "f", 0), q("S", "k")])

# 10. two spaces, cells of one reads a reference / a cells of the other by attribute path via a
# space-valued reference
root("spaceref",
     {"spaces": {"O": {"refs": {"w": 1}, "cells": {"c": L + "x + w"}},
                 "S": {"refs": {"o": obj("O")},
                       "cells": {"g": L + "o.w + x", "g2": L + "o.c(x)", "f": L + "g(x) + 1",
                                 "f2": L + "g2(x) + 1"}}}},
     [q("S", "g", 0), q("S", "f", 0), q("S", "f2", 0), q("S", "f2", 1)],
     [set_ref("O", "w", 2), del_ref("O", "w"), set_ref("", "w", 6), set_formula("O", "c", L + "x + w + 10"),
      set_cached("S", "g", False), set_cached("S", "g2", False), set_cached("O", "c", False),
      set_input("O", "c", [0], 20),
      rename_space("O", "O2"), del_space("", "O"), set_ref("S", "o", 3), del_ref("S", "o"),
      new_cells("O", "w2", L + "1"), del_cells("O", "c")],
     [q("S", "f", 0), q("S", "f2", 0), q("S", "g", 0)])


# 14. a cells derived from the first of two bases defining it, no references involved (nothing else changes in the
# sub's namespace when the derived cells changes its origin); callers in the sub and in another space
root("twobases",
     {"spaces": {"B1": {"cells": {"rate": L + "10 * x"}},
                 "B2": {"cells": {"rate": L + "20 * x"}},
                 "Sub": {"bases": ["B1", "B2"], "formula": "lambda i: None", "cells": {"total": L + "rate(x) + 1"}},
                 "O": {"refs": {"s": obj("Sub")}, "cells": {"view": L + "s.rate(x) + 2"}}}},
     [q("Sub", "total", 1), q("O", "view", 1), q("Sub", "rate", 1), q("Sub[1]", "total", 1)],
     [del_cells("B1", "rate"), remove_bases("Sub", "B1"), add_bases("Sub", "B1"),
      new_cells("B1", "rate", L + "30 * x"), set_formula("B1", "rate", L + "40 * x"),
      set_formula("B2", "rate", L + "50 * x"), set_formula("Sub", "rate", L + "60 * x"), del_cells("Sub", "rate"),
      set_input("B1", "rate", [1], 7), rename_cells("B1", "rate", "rate2"), {"op": "sort_cells", "sp": "Sub"}],
     [q("Sub", "total", 1), q("O", "view", 1), q("Sub[1]", "total", 1)])

# 15. a *reference* derived from the first of two bases defining it, read by name in the sub, by attribute path from
# another space, and in an ItemSpace of the sub
root("twobasesref",
     {"spaces": {"B1": {"refs": {"k": 1}},
                 "B2": {"refs": {"k": 2}},
                 "Sub": {"bases": ["B1", "B2"], "formula": "lambda i: None", "cells": {"byname": L + "k + x"}},
                 "O": {"refs": {"s": obj("Sub")}, "cells": {"bypath": L + "s.k + x + 100"}}}},
     [q("Sub", "byname", 1), q("O", "bypath", 1), q("Sub[1]", "byname", 1)],
     [del_ref("B1", "k"), remove_bases("Sub", "B1"), add_bases("Sub", "B1"), set_ref("B1", "k", 5),
      set_ref("B2", "k", 6), set_ref("Sub", "k", 7), del_ref("Sub", "k"), set_ref("", "k", 9)],
     [q("Sub", "byname", 1), q("O", "bypath", 1), q("Sub[1]", "byname", 1)])

# 13. a chain through two uncached levels to an attribute-path / by-name reference, caller in another space
root("uncachain",
     {"spaces": {"S": {"cells": {"c": L + "u1(x) + 1", "u1": {"src": L + "u2(x)", "cached": False},
                                 "u2": {"src": L + "T.q + x + leaf(x)", "cached": False}, "leaf": L + "x + 1"},
                       "spaces": {"T": {"refs": {"q": 1}}}},
                 "O": {"refs": {"s": obj("S"), "w": 1},
                       "cells": {"oc": L + "s.u1(x) + w", "ob": L + "s.c(x)"}}}},
     [q("S", "c", 0), q("S", "c", 1), q("O", "oc", 0), q("O", "ob", 0)],
     [set_ref("S.T", "q", 2), del_ref("S.T", "q"), set_ref("", "q", 9), set_ref("O", "w", 2),
      set_cached("S", "u1", False), set_cached("S", "u1", True), set_cached("S", "u2", False),
      set_cached("S", "u2", True), set_cached("S", "c", False), set_formula("S", "u2", L + "T.q + x + 100"),
      set_formula("S", "leaf", L + "x + 50"), set_input("S", "leaf", [0], 70), cl("clear_all", "S", "leaf")],
     [q("S", "c", 0), q("O", "oc", 0)])

# 12. a model-level reference reached by attribute path through a space, then shadowed / un-shadowed there
root("shadowattr",
     {"refs": {"w": 1},
      "spaces": {"O": {"cells": {"c": L + "w + x"}},
                 "S": {"refs": {"o": obj("O")}, "cells": {"g": L + "o.w + x", "f": L + "g(x) + 1"}}}},
     [q("S", "g", 0), q("S", "f", 0), q("O", "c", 0)],
     [set_ref("O", "w", 5), del_ref("O", "w"), set_ref("", "w", 2), del_ref("", "w"), set_ref("S", "w", 7),
      del_ref("S", "w"), set_cached("S", "g", False), set_cached("S", "g", True)],
     [q("S", "f", 0), q("S", "g", 0)])

# 11. ItemSpaces of a sub space deriving its cells from a base: edits of the base definitions
root("inheritem",
     {"spaces": {"Base": {"refs": {"r": 1}, "cells": {"foo": "lambda: tick() + r", "bar": L + "foo() + x"}},
                 "Sub": {"bases": ["Base"], "formula": "lambda i: None"}}},
     [q("Base", "foo"), q("Sub", "foo"), q("Sub[1]", "foo"), q("Sub[1]", "bar", 1), q("Sub[2]", "bar", 0)],
     [set_formula("Base", "foo", "lambda: tick() + r + 100"), set_cached("Base", "foo", False),
      set_cached("Base", "foo", True), set_ref("Base", "r", 2), del_ref("Base", "r"), set_ref("Sub", "r", 3),
      del_ref("Sub", "r"), set_formula("Sub", "foo", "lambda: tick() + r + 200"), del_cells("Sub", "foo"),
      set_input("Base", "foo", [], 50), set_input("Sub", "foo", [], 51), cl("clear_all", "Base", "foo"),
      rename_cells("Base", "foo", "foo2"), del_cells("Base", "bar"), new_cells("Base", "baz", L + "x"),
      remove_bases("Sub", "Base"), add_bases("Sub", "Base"), set_param("Sub", "lambda i, j=0: None"),
      {"op": "clear_items", "sp": "Sub"}, {"op": "sort_cells", "sp": "Base"}],
     [q("Sub[1]", "foo"), q("Sub[1]", "bar", 1), q("Base", "foo")])


# 16. references read only inside nested code objects (comprehension in a comprehension, lambda in a lambda)
root("nestedcode",
     {"spaces": {"S": {"refs": {"r": 1},
                       "cells": {"deep": L + "sum(sum(r + j for j in range(2)) for i in range(x + 1))",
                                 "lam": L + "(lambda: (lambda: r + x)())()",
                                 "top": L + "deep(x) + lam(x)"}}}},
     [q("S", "deep", 1), q("S", "lam", 1), q("S", "top", 1)],
     [set_ref("S", "r", 2), del_ref("S", "r"), set_ref("", "r", 7), set_cached("S", "deep", False)],
     [q("S", "top", 1), q("S", "deep", 1)])

# 17. ItemSpaces nested in ItemSpaces: discarding the outer one discards everything computed below it
root("nesteditem",
     {"spaces": {"P": {"formula": "lambda i: None", "refs": {"r2": 1},
                       "cells": {"c": "lambda: tick() + i + r2"},
                       "spaces": {"Q": {"formula": "lambda j: None",
                                        "cells": {"d": L + "i * 10 + j + x"}}}},
                 "S": {"refs": {"P": obj("P")}, "cells": {"it": L + "P[x].Q[2].d(1)"}}}},
     [q("P[1].Q[2]", "d", 1), q("S", "it", 1), q("P[1]", "c"), q("P[2].Q[2]", "d", 0)],
     [{"op": "del_item", "sp": "P", "args": [1]}, {"op": "clear_items", "sp": "P"},
      {"op": "del_item", "sp": "P[1].Q", "args": [2]}, new_cells("P", "e", "lambda: tick() + 5"),
      set_ref("P", "r2", 2), set_formula("P.Q", "d", L + "i * 10 + j + x + 100"), {"op": "model_clear_all"}],
     [q("P[1].Q[2]", "d", 1), q("S", "it", 1)])


def _add_clear_ops():
    for r in ROOTS.values():
        seen = set()
        extra = []
        for p in r["probes"]:
            if "[" in p["sp"]:
                continue
            k = (p["sp"], p["c"], tuple(p.get("args", [])))
            if k in seen:
                continue
            seen.add(k)
            op = cl("clear_at", p["sp"], p["c"], *p.get("args", []))
            if op not in r["edits"]:
                extra.append(op)
        r["edits"] = r["edits"] + extra


def _add_flag_ops():
    """Both directions of the cached flag for every cells of every root."""
    for r in ROOTS.values():
        def rec(prefix, d):
            for n, sd in d.items():
                for cn in sd.get("cells", {}):
                    for v in (False, True):
                        op = set_cached(prefix + n, cn, v)
                        if op not in r["edits"]:
                            r["edits"] = r["edits"] + [op]
                rec(prefix + n + ".", sd.get("spaces", {}))
        rec("", r["spec"]["spaces"])


_add_clear_ops()
_add_flag_ops()


def prune_noop_flags(hist, alphabet, initially_uncached=()):
    """Drop is_cached assignments that cannot change anything in the state reached by hist (the flag already
    has that value according to the flag assignments made so far)."""
    unc = set(tuple(u) for u in initially_uncached)
    for op in hist:
        if op["op"] == "set_cached":
            (unc.discard if op["v"] else unc.add)((op["sp"], op["c"]))
    return [op for op in alphabet
            if not (op["op"] == "set_cached" and (((op["sp"], op["c"]) in unc) != op["v"]))]


def root_names(tier):
    return list(ROOTS)


# --------------------------------------------------------------------------------------

class World:
    """A fresh session holding model M built from a root spec."""

    def __init__(self, rootname, name="M", warm=False):
        self.root = ROOTS[rootname]
        reset_world()
        self.m, self.rm = O.build_from_spec(self.root["spec"], name)
        if warm:        # start from a state in which every probe element already holds a value
            self.probe_all()

    def apply(self, op, track_ref=True):
        ob = O.apply_impl(self.m, op)
        if track_ref and ob[0] == "ok" and O.is_edit(op) and self.rm is not None:
            try:
                O.apply_ref(self.rm, op)
            except Exception:
                self.rm = None      # reference model no longer defined for this history
        return ob

    def probe_all(self):
        return [O.apply_impl(self.m, p) for p in self.root["probes"]]


def canon_world(w):
    return session_canon()


# --------------------------------------------------------------------------------------
# introspection of held elements and reference call trees (C06, C08)

def held_elems(m):
    """[{inst, c, key, value, is_input, cells}] for every held element incl. dynamic spaces."""
    from mxmc.session import walk_spaces, space_path, render
    out = []
    for s in walk_spaces(m):
        sp = space_path(s)
        for n, c in s.cells.items():
            impl = c._impl
            for k, v in impl.data.items():
                out.append({"inst": sp, "c": n, "key": k, "value": render(v),
                            "is_input": k in impl.input_keys, "cells": c,
                            "elem": (sp + "." + n, json.dumps(render(k)))})
    return out


def item_elems(m):
    """[(space path, key, space interface)] for every live ItemSpace."""
    from mxmc.session import walk_spaces, space_path, render
    out = []
    for s in walk_spaces(m):
        try:
            ps = s._impl.param_spaces
        except BaseException:
            continue
        for k in ps:
            out.append((space_path(s), json.dumps(render(k)), s, k))
    return out


class RefTrees:
    """Reference call trees of elements under the current reference definitions."""

    def __init__(self, rm, tick=None):
        from mxmc.refsem import Evaluator
        self.ev = Evaluator(rm, tick=tick or (lambda: 0))
        self.memo = {}

    def tree(self, inst, c, key):
        k = (inst, c, tuple(key))
        if k not in self.memo:
            r = self.ev.eval(inst, c, key)
            self.memo[k] = r
        return self.memo[k]

    def closure(self, inst, c, key):
        """All elements (cached or not) in the tree of the element, incl. itself; None if undefined."""
        from mxmc.refsem import tree_elems
        r = self.tree(inst, c, key)
        if r[0] != "ok":
            return None
        return set(tree_elems(r[2]))
