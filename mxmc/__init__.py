"""mxmc - bounded-exhaustive explorer ("model checker") for the real modelx implementation.

See /verif/DESIGN.md.  Every driver under mxmc.drivers enumerates a finite space of
operation histories / input programs / fault points and judges each one with an oracle.
"""
