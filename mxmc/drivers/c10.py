"""C10 Object-valued references rebind relatively or stay absolute as their mode says.

Roots: 3 reference modes x placements of the target (the defining space, a cells of it, a descendant space,
a cells in a descendant, an outside space / cells, an outside space whose name has the definer's name as a
string prefix) x definer (top-level space A, nested space A.T) x construction order (reference before /
after the sub spaces exist).  Derivers checked in every state: static sub, sub of sub, ItemSpace of the
definer, ItemSpace of a sub, child of an ItemSpace.  Histories (depth <= 2): re-point the reference, change
its mode, remove / add the base, discard and re-instantiate, write + read back (directory and zip).
Oracle: the closed-form binding rule of the statement; nothing is demanded where the statement is silent
(descendant targets under static derivation).
"""
import json
import os
import shutil
import tempfile

import modelx as mx
from modelx.core.system import mxsys

from mxmc import bfs, ops as O
from mxmc.session import reset_world, observe, safe, digest, session_canon, render

PROPERTY = "C10"
LEVEL = "model_checking"
ASSUMPTIONS = [
    "only what the statement fixes is judged: absolute -> original object; auto/relative with target = definer or one "
    "of its cells -> deriver / corresponding cells; ItemSpaces: any target inside the base's tree -> corresponding "
    "dynamic object; outside -> original. Descendant targets under static derivation are not judged.",
]
DEPTH = {"quick": 2, "thorough": 3}
MODES = ["auto", "relative", "absolute"]
TARGETS_A = ["A", "A.x", "A.T", "A.T.tc", "Out", "Out.o", "AB", "AB.o"]
TARGETS_T = ["A.T", "A.T.tc", "A", "A.x", "Out", "AB"]


def py(code, edit=True):
    return {"op": "py", "code": code, "edit": edit}


def setref(definer, target, mode):
    return py("m.%s.set_ref('t', m.%s, %r)" % (definer, target, mode))


MIRROR_DEFINERS = {"A.B.C.E": "D.C.E", "A.B.C": "D.C"}


def build_mirror(root):
    """Definer two / three levels below the root of a mirrored tree: D(A.B), D.C(A.B.C), D.C.E(A.B.C.E)."""
    reset_world()
    m = mx.new_model("M")
    env = {"m": m}
    lines = [
        "Out = m.new_space('Out'); Out.new_cells('o', formula='lambda: 1')",
        "A = m.new_space('A'); B = A.new_space('B'); C = B.new_space('C'); E = C.new_space('E')",
        "B.new_cells('x', formula='lambda: 2'); C.new_cells('x', formula='lambda: 3'); E.new_cells('x', formula='lambda: 4')",
    ]
    subs = [
        "D = m.new_space('D', bases=[m.A.B], formula='lambda i: None')",
        "DC = m.D.new_space('C', bases=[m.A.B.C])",
        "DCE = m.D.C.new_space('E', bases=[m.A.B.C.E])",
    ]
    for l in lines:
        exec(l, env)
    ref = setref(root["definer"], root["target"], root["mode"])
    if root["order"] == "ref-first":
        ob = O.apply_impl(m, ref)
        for l in subs:
            try:
                exec(l, env)
            except Exception:
                pass
    else:
        for l in subs:
            exec(l, env)
        ob = O.apply_impl(m, ref)
    return m, ob


def build_twobase(root):
    """Two bases B1, B2 of a parametrised space Sub (and Sub3 deriving from Sub); the reference t is defined in one
    or both bases (root["t1"], root["t2"] = [target, mode] or None), before or after the subs exist."""
    reset_world()
    m = mx.new_model("M")
    env = {"m": m}
    for l in ["Out = m.new_space('Out'); Out.new_cells('o', formula='lambda: 1')",
              "B1 = m.new_space('B1'); B1.new_cells('foo', formula='lambda: 3')",
              "B2 = m.new_space('B2'); B2.new_cells('foo', formula='lambda: 4')"]:
        exec(l, env)
    subs = ["Sub = m.new_space('Sub', bases=[m.B1, m.B2], formula='lambda i: None')",
            "Sub3 = m.new_space('Sub3', bases=[m.Sub])"]
    refs = [setref(b, root[k][0], root[k][1]) for b, k in (("B2", "t2"), ("B1", "t1")) if root.get(k)]
    ob = ("ok", None)
    if root["order"] == "ref-first":
        for r in refs:
            ob = O.apply_impl(m, r)
        for l in subs:
            exec(l, env)
    else:
        for l in subs:
            exec(l, env)
        for r in refs:
            ob = O.apply_impl(m, r)
    return m, ob


def judge_twobase(m, root, case, viols, where="live"):
    """Sub.t is derived from the first space of Sub's linearisation that defines t; the binding rule applies with
    that space as definer."""
    n = 0

    def bad(clause, observed, expected):
        viols.append({"clause": clause, "case": case, "observed": observed, "expected": expected})
    sub_t = safe(lambda: m.Sub._get_object("t", as_proxy=True))
    if isinstance(sub_t, str) or safe(lambda: sub_t.is_derived()) is not True:
        return 0
    definer = None
    for b in safe(lambda: [x.name for x in m.Sub.bases]) or []:
        cur = current_ref(m, b)
        if cur is not None:
            definer, (target, mode) = b, cur
            break
    if definer is None:
        return 0

    def see(expr, exp, clause):
        nonlocal n
        if exp is None:
            return
        ob = observe(lambda: name_of(eval("m." + expr, {"m": m})))
        n += 1
        if ob != ("ok", exp):
            bad(clause, {"where": where, "expr": expr, "definer": definer, "mode": mode, "target": target,
                         "got": ob}, exp)
    sub_static = expected_static(definer, "Sub", target, mode)
    see("Sub.t", sub_static, "static-2bases:" + mode)
    if safe(lambda: m.Sub3._get_object("t", as_proxy=True).is_derived()) is True:
        see("Sub3.t", expected_static(definer, "Sub3", target, mode), "static-2bases-subsub:" + mode)
    if sub_static is not None and safe(lambda: m.Sub.formula is not None) is True:
        see("Sub[1].t", expected_item("Sub", "Sub(1)", sub_static, mode), "item-2bases:" + mode)
        ob = observe(lambda: m.Sub._get_object("t", as_proxy=True).refmode)
        if ob != ("ok", mode):
            bad("refmode-static", {"where": where, "space": "Sub", "got": ob}, mode)
    return n


def build(root):
    if root.get("family") == "twobase":
        return build_twobase(root)
    if root.get("family") == "mirror":
        return build_mirror(root)
    reset_world()
    m = mx.new_model("M")
    env = {"m": m}
    lines = [
        "Out = m.new_space('Out'); Out.new_cells('o', formula='lambda: 1')",
        "AB = m.new_space('AB'); AB.new_cells('o', formula='lambda: 2')",
        "A = m.new_space('A', formula='lambda i: None'); A.new_cells('x', formula='lambda: 3')",
        "T = A.new_space('T', formula='lambda j: None'); T.new_cells('tc', formula='lambda: 4')",
        "PB = m.new_space('PB', formula='lambda i: {\"base\": A}', refs={'A': A})",   # ItemSpaces built from base A
    ]
    subs = [
        "Sub = m.new_space('Sub', bases=[m.A], formula='lambda i: None')",
        "SubSub = m.new_space('SubSub', bases=[m.Sub])",
        "Sub2 = m.new_space('Sub2', bases=[m.A])",
    ]
    for l in lines:
        exec(l, env)
    ref = setref(root["definer"], root["target"], root["mode"])
    if root["order"] == "ref-first":
        ob = O.apply_impl(m, ref)
        for l in subs:
            try:
                exec(l, env)
            except Exception:
                pass
    else:
        for l in subs:
            exec(l, env)
        ob = O.apply_impl(m, ref)
    return m, ob


def name_of(o):
    if isinstance(o, mx.core.base.Interface):
        if not o._is_valid():
            return "<deleted>"
        r = o._evalrepr
        return r.split(".", 1)[1] if "." in r else r
    return render(o)


def corresponding(target, old_root, new_root):
    """Replace the leading old_root of a dotted name by new_root."""
    if target == old_root:
        return new_root
    if target.startswith(old_root + "."):
        return new_root + target[len(old_root):]
    return None


def expected_static(definer, deriver, target, mode):
    """Binding of t in a static deriver; None = not judged."""
    if mode == "absolute":
        return target
    inside = target == definer or target.startswith(definer + ".")
    if not inside and mode == "relative":
        return None     # documented to be an error (no relative counterpart)
    if not inside and target.split(".")[0] == definer.split(".")[0]:
        # an ancestor / cousin of the definer inside the same top-level tree: whether it lies "outside the
        # tree" depends on which tree is mirrored; the statement does not fix it - not judged
        return None
    if not inside:
        # outside the definer's tree: keeps denoting the original object. But for a nested definer (A.T) a
        # target in the enclosing tree (A, A.x) is 'outside' only w.r.t. A.T; the deriver here derives from the
        # top-level definer only, so this case does not arise.
        return target
    if target == definer:
        return deriver
    rest = target[len(definer) + 1:]
    if "." not in rest and rest in ("x", "foo"):       # a cells of the defining space
        return deriver + "." + rest
    return None     # descendant space / cells in a descendant: the statement is silent


def expected_item(base_root, item_root, target, mode):
    """Binding in an ItemSpace tree whose root ItemSpace item_root was built from static base_root."""
    if mode == "absolute":
        return target
    c = corresponding(target, base_root, item_root)
    if c is None and mode == "relative":
        # documented (release notes 0.10.0): a relative reference whose target has no relative counterpart is
        # an error; the statement's "outside the tree keeps the original object" is about auto mode
        return None
    return c if c is not None else target


def current_ref(m, definer):
    """(target name, mode) of reference t as currently defined in the definer, or None."""
    try:
        sp = eval("m." + definer, {"m": m})
        if "t" not in sp._own_refs:
            return None
        px = sp._get_object("t", as_proxy=True)
        if px.is_derived():
            return None
        return name_of(px.value), px.refmode
    except Exception:
        return None


def judge(m, root, case, viols, where="live"):
    if root.get("family") == "twobase":
        return judge_twobase(m, root, case, viols, where)
    definer = root["definer"]
    cur = current_ref(m, definer)
    if cur is None:
        return 0
    target, mode = cur
    nchecked = 0

    def bad(clause, observed, expected):
        viols.append({"clause": clause, "case": case, "observed": observed, "expected": expected})

    def see(expr, exp, clause):
        nonlocal nchecked
        if exp is None:
            return
        ob = observe(lambda: name_of(eval("m." + expr, {"m": m})))
        nchecked += 1
        if ob != ("ok", exp):
            bad(clause, {"where": where, "expr": expr, "mode": mode, "target": target, "got": ob}, exp)

    def mode_of(expr_space, clause):
        ob = observe(lambda: eval("m." + expr_space, {"m": m})._get_object("t", as_proxy=True).refmode)
        if ob != ("ok", mode):
            bad(clause, {"where": where, "space": expr_space, "got": ob}, mode)

    # the definer itself always denotes the target
    see(definer + ".t", target, "definer")
    if root.get("family") == "mirror":
        deriver = MIRROR_DEFINERS[definer]
        if safe(lambda: "t" in eval("m." + deriver, {"m": m})._own_refs) is True:
            exp = expected_static(definer, deriver, target, mode)
            see(deriver + ".t", exp, "static-nested:" + mode)
            mode_of(deriver, "refmode-static")
            if exp is not None and safe(lambda: m.D.formula is not None) is True:
                item = "D[1]" + deriver[1:]
                see(item + ".t", expected_item("D", "D(1)", exp, mode), "item-nested:" + mode)
        # a top-level deriver named like the last component of the nested definer
        last = definer.split(".")[-1]
        if safe(lambda: last in m.spaces and "t" in m.spaces[last]._own_refs) is True:
            see(last + ".t", expected_static(definer, last, target, mode), "static-samename:" + mode)
        return nchecked
    if definer == "A":
        for sub in ("Sub", "SubSub", "Sub2"):
            if safe(lambda: "t" in eval("m." + sub, {"m": m})._own_refs and
                    m.A in eval("m." + sub, {"m": m}).bases and
                    eval("m." + sub, {"m": m})._get_object("t", as_proxy=True).is_derived() and
                    (sub != "SubSub" or m.Sub._get_object("t", as_proxy=True).is_derived())) is True:
                see(sub + ".t", expected_static("A", sub, target, mode), "static:" + mode)
                mode_of(sub, "refmode-static")
        # ItemSpace of the definer
        if safe(lambda: m.A.formula is not None) is True:
            see("A[1].t", expected_item("A", "A(1)", target, mode), "item:" + mode)
            see("A(2).t", expected_item("A", "A(2)", target, mode), "item:" + mode)
        # ItemSpace of a sub: the sub's own (derived) binding, rebound inside the sub's dynamic tree
        if safe(lambda: "t" in m.Sub._own_refs and m.A in m.Sub.bases and m.Sub.formula is not None
                and m.Sub._get_object("t", as_proxy=True).is_derived()) is True:
            sub_static = expected_static("A", "Sub", target, mode)
            if sub_static is not None:
                see("Sub[1].t", expected_item("Sub", "Sub(1)", sub_static, mode), "item-of-sub:" + mode)
        # ItemSpace of another space whose parameter formula selects A as its base
        if safe(lambda: "PB" in m.spaces and "A" in m.spaces) is True:
            see("PB[1].t", expected_item("A", "PB(1)", target, mode), "item-other-base:" + mode)
    else:   # definer A.T: deriver = child of an ItemSpace of A
        if safe(lambda: m.A.formula is not None) is True:
            see("A[1].T.t", expected_item("A", "A(1)", target, mode), "item-child:" + mode)
            # nested ItemSpace: its base is A.T (the parent A[1].T is a different object)
            if safe(lambda: m.A.T.formula is not None) is True:
                see("A[1].T[2].t", expected_item("A.T", "A(1).T(2)", target, mode), "item-nested2:" + mode)
    return nchecked


SCRATCH = [None]


def scratch_dir():
    if SCRATCH[0] is None or not os.path.isdir(SCRATCH[0]):
        SCRATCH[0] = tempfile.mkdtemp(prefix="mxmc_c10_")
    return SCRATCH[0]


def cleanup():
    if SCRATCH[0] and os.path.isdir(SCRATCH[0]):
        shutil.rmtree(SCRATCH[0], ignore_errors=True)
    SCRATCH[0] = None


def run_history(root, hist):
    m, ob0 = build(root)
    case = {"root": root, "history": hist}
    viols = []
    obs = [ob0[0]]
    nchecked = 0
    for op in hist:
        if op["code"].startswith("WRITEREAD"):
            kind = op["code"].split(":")[1]
            d = scratch_dir()
            path = os.path.join(d, "mdl" + (".zip" if kind == "zip" else ""))
            for p in (path,):
                if os.path.isdir(p):
                    shutil.rmtree(p)
                elif os.path.exists(p):
                    os.remove(p)
            old_tmp = tempfile.tempdir
            tempfile.tempdir = d
            try:
                w = observe(lambda: (m.zip(path, backup=False) if kind == "zip" else m.write(path, backup=False)))
                if w[0] != "ok":
                    viols.append({"clause": "write-raises", "case": case, "observed": w, "expected": "written"})
                    break
                before = current_ref(m, root["definer"])
                m.close()
                r = observe(lambda: mx.read_model(path, name="M"))
                if r[0] != "ok":
                    viols.append({"clause": "read-raises", "case": case, "observed": r, "expected": "a model"})
                    break
                m = mxsys.models["M"].interface
                after = current_ref(m, root["definer"])
                if before != after:
                    viols.append({"clause": "saved-binding", "case": case, "observed": {"after": after},
                                  "expected": {"before": before}})
                    break
            finally:
                tempfile.tempdir = old_tmp
            obs.append("wr")
            continue
        obs.append(O.apply_impl(m, op)[0])
    if not viols:
        nchecked = judge(m, root, case, viols)
    canon = session_canon(with_graph=False)
    return canon, viols, digest(obs), {"checked": nchecked}


def alphabet(root):
    if root.get("family") == "twobase":
        ops = []
        for b in ("B1", "B2"):
            for t, mode in ((b + ".foo", "auto"), (b + ".foo", "absolute"), (b + ".foo", "relative"), (b, "auto"),
                            ("Out.o", "auto")):
                ops.append(setref(b, t, mode))
            ops.append(py("del m.%s.t" % b))
        ops += [py("m.Sub.remove_bases(m.B1)"), py("m.Sub.add_bases(m.B1)"), py("m.Sub[1]", False),
                py("m.Sub.clear_items()"), py("del m.Sub.t"), py("m.B1.new_cells('w', formula='lambda: 0')")]
        return ops
    d = root["definer"]
    if root.get("family") == "mirror":
        ops = []
        for mode in MODES:
            for t in (d, d + ".x", "Out", "A.B"):
                ops.append(setref(d, t, mode))
        ops += [py("m.new_space(%r, bases=[m.%s])" % (d.split(".")[-1], d)),
                py("del m.%s.t" % d), py("m.D[1]", False), py("m.D.clear_items()"), py("WRITEREAD:dir"),
                py("m.%s.new_cells('w', formula='lambda: 0')" % d)]
        return ops
    targets = TARGETS_A if d == "A" else TARGETS_T
    ops = []
    for mode in MODES:
        for t in targets:
            ops.append(setref(d, t, mode))
    ops += [py("del m.%s.t" % d), py("m.Sub.remove_bases(m.A)"), py("m.Sub.add_bases(m.A)"),
            py("m.Sub.set_ref('t', m.Out, 'absolute')"), py("del m.Sub.t"),
            py("m.A.clear_items()"), py("m.A[1]", False), py("m.Sub[1]", False), py("m.A.new_cells('w', formula='lambda: 0')"),
            py("m.A.x.rename('x')"), py("WRITEREAD:dir"), py("WRITEREAD:zip")]
    return ops


def roots(tier):
    out = []
    for order in ("subs-first", "ref-first"):
        for mode in MODES:
            for t in TARGETS_A:
                out.append({"definer": "A", "target": t, "mode": mode, "order": order})
            for t in TARGETS_T:
                out.append({"definer": "A.T", "target": t, "mode": mode, "order": order})
            for d in MIRROR_DEFINERS:
                for t in (d, d + ".x"):
                    out.append({"family": "mirror", "definer": d, "target": t, "mode": mode, "order": order})
    # two bases defining the reference: the derived reference can change its origin
    for order in ("subs-first", "ref-first"):
        for t1 in (None, ["B1.foo", "auto"], ["B1.foo", "absolute"], ["Out.o", "auto"]):
            for t2 in (["B2.foo", "auto"], ["B2.foo", "absolute"], ["B2", "relative"]):
                out.append({"family": "twobase", "definer": "B2", "t1": t1, "t2": t2, "order": order})
    return out


def work_items(tier, seed):
    return [{"root": r} for r in roots(tier)]


def run_item(item, tier):
    root = item["root"]
    alpha = alphabet(root)
    n = [0]

    def rh(h):
        c, v, d, info = run_history(root, h)
        n[0] += info["checked"]
        return c, v, d, info
    try:
        res = bfs.explore(rh, lambda h, i: alpha, DEPTH[tier])
    finally:
        cleanup()
    res.samples = [{"root": root, "history": h} for h in res.samples[:1]]
    out = res.as_item_result()
    out["counts"]["bindings_checked"] = n[0]
    return out


def check_case(case):
    try:
        return run_history(case["root"], case["history"])[1]
    finally:
        cleanup()


def shrink_candidates(case):
    h = case["history"]
    for i in range(len(h)):
        yield {"root": case["root"], "history": h[:i] + h[i + 1:]}
    if case["root"]["order"] != "subs-first":
        yield {"root": dict(case["root"], order="subs-first"), "history": h}


def script(case):
    r = case["root"]
    if r.get("family") == "twobase":
        L = ["import modelx as mx", "m = mx.new_model('M')",
             "Out = m.new_space('Out'); Out.new_cells('o', formula='lambda: 1')",
             "B1 = m.new_space('B1'); B1.new_cells('foo', formula='lambda: 3')",
             "B2 = m.new_space('B2'); B2.new_cells('foo', formula='lambda: 4')"]
        subs = ["Sub = m.new_space('Sub', bases=[m.B1, m.B2], formula='lambda i: None')",
                "Sub3 = m.new_space('Sub3', bases=[m.Sub])"]
        refs = [setref(b, r[k][0], r[k][1])["code"] for b, k in (("B2", "t2"), ("B1", "t1")) if r.get(k)]
        L += (refs + subs) if r["order"] == "ref-first" else (subs + refs)
        for op in case["history"]:
            L.append("try:\n    %s\nexcept Exception as e:\n    print('raised', type(e).__name__, e)" % op["code"])
        for e in ("Sub.t", "Sub3.t", "Sub[1].t"):
            L.append("try:\n    print(%r, m.%s)\nexcept Exception as e:\n    print(%r, 'raised', type(e).__name__, e)" % (e, e, e))
        return "\n".join(L)
    if r.get("family") == "mirror":
        L = ["import modelx as mx", "m = mx.new_model('M')",
             "Out = m.new_space('Out'); Out.new_cells('o', formula='lambda: 1')",
             "A = m.new_space('A'); B = A.new_space('B'); C = B.new_space('C'); E = C.new_space('E')",
             "B.new_cells('x', formula='lambda: 2'); C.new_cells('x', formula='lambda: 3'); E.new_cells('x', formula='lambda: 4')"]
        subs = ["D = m.new_space('D', bases=[m.A.B], formula='lambda i: None')",
                "DC = m.D.new_space('C', bases=[m.A.B.C])", "DCE = m.D.C.new_space('E', bases=[m.A.B.C.E])"]
        ref = setref(r["definer"], r["target"], r["mode"])["code"]
        L += ([ref] + subs) if r["order"] == "ref-first" else (subs + [ref])
        for op in case["history"]:
            if not op["code"].startswith("WRITEREAD"):
                L.append("try:\n    %s\nexcept Exception as e:\n    print('raised', type(e).__name__, e)" % op["code"])
        for e in (r["definer"] + ".t", MIRROR_DEFINERS[r["definer"]] + ".t", "D[1]" + MIRROR_DEFINERS[r["definer"]][1:] + ".t"):
            L.append("try:\n    print(%r, m.%s)\nexcept Exception as e:\n    print(%r, 'raised', type(e).__name__, e)" % (e, e, e))
        return "\n".join(L)
    L = ["import modelx as mx", "m = mx.new_model('M')",
         "Out = m.new_space('Out'); Out.new_cells('o', formula='lambda: 1')",
         "AB = m.new_space('AB'); AB.new_cells('o', formula='lambda: 2')",
         "A = m.new_space('A', formula='lambda i: None'); A.new_cells('x', formula='lambda: 3')",
         "T = A.new_space('T', formula='lambda j: None'); T.new_cells('tc', formula='lambda: 4')",
         "PB = m.new_space('PB', formula='lambda i: {\"base\": A}', refs={'A': A})"]
    subs = ["Sub = m.new_space('Sub', bases=[m.A], formula='lambda i: None')",
            "SubSub = m.new_space('SubSub', bases=[m.Sub])", "Sub2 = m.new_space('Sub2', bases=[m.A])"]
    ref = setref(r["definer"], r["target"], r["mode"])["code"]
    L += ([ref] + subs) if r["order"] == "ref-first" else (subs + [ref])
    for op in case["history"]:
        if op["code"].startswith("WRITEREAD"):
            k = op["code"].split(":")[1]
            L.append("m.%s('/tmp/_c10_model%s', backup=False); m.close(); m = mx.read_model('/tmp/_c10_model%s', name='M')"
                     % ("zip" if k == "zip" else "write", ".zip" if k == "zip" else "", ".zip" if k == "zip" else ""))
        else:
            L.append("try:\n    %s\nexcept Exception as e:\n    print('raised', type(e).__name__, e)" % op["code"])
    for e in ("A.t", "Sub.t", "SubSub.t", "Sub2.t", "A[1].t", "Sub[1].t", "A.T.t", "A[1].T.t"):
        L.append("try:\n    print(%r, m.%s)\nexcept Exception as e:\n    print(%r, 'raised', type(e).__name__, e)" % (e, e, e))
    return "\n".join(L)


def coverage(agg, tier):
    c = agg["counts"]
    return {"states": c.get("states", 0), "transitions": c.get("transitions", 0),
            "traces_validated_against_impl": c.get("transitions", 0), "merged": c.get("merged", 0),
            "roots": agg["items"], "depth": DEPTH[tier], "exhaustive": True,
            "bindings_checked": c.get("bindings_checked", 0)}


def vacuity(agg, tier):
    if agg["counts"].get("bindings_checked", 0) < 5000:
        return "too few bindings checked: %s" % agg["counts"]
