"""C19 Model registry: unique names, no model dropped, models isolated from each other.

Explicit-state BFS over histories of session-level operations on the real implementation:

    new_model(n)            n in {None, "X", "Y", "X_BAK1"}
    read_model(saved X)     plain / name="Y" / a saved tree with one corrupted file (fails midway)
    rename(m, n, rename_old)
    close(m)
    edit(m, kind)           populate (space S, ref r, cells f, k) / ref / value / cells / space
    xref(a, b)              a.xr = b.S.f   (cross-model reference)
    query(m)                m.S.f(1) and, through the cross reference, m.S.k(1)

A handle is kept to every model ever created.  Ops address a model by its *current name as
recorded by the reference model* (a dict handle -> {name, open, ...} kept by the harness), which
lets histories that differ only in handle numbering merge.  Every history is replayed from a
fresh world; after every op the clauses

    registry       mx.get_models() maps exactly each open handle's current name to that model,
                   names unique, the names follow the op (explicit name taken by the new / renamed
                   model, the displaced model gets <name>_BAK<k>, nobody else is renamed)
    never-dropped  number of registered models == number of handles not closed, each open handle
                   is registered
    close          close removes exactly that model
    isolation      the description (definitions, inputs) of every model other than the op's target
                   is unchanged, and the held values of every model that is not linked to the
                   target by a cross-model reference are unchanged

are evaluated.
"""
import os
import json
import shutil
import tempfile

import modelx as mx
from modelx.core.system import mxsys
from mxmc.session import (reset_world, describe_model, held_values, graph_state, executor_quiescent,
                          observe, digest, safe)

PROPERTY = "C19"
LEVEL = "model_checking"
ASSUMPTIONS = [
    "histories start from an empty session; at most max_models (3, one thorough phase 4) models are ever "
    "created per history (open or closed) - a failed read counts as a creation",
    "alphabet as in the module docstring; model names X, Y, X_BAK1 and auto names; one saved model "
    "(name X, space S with r, f, k and one input) plus corrupted copies of its tree",
    "a query through a cross-model reference is an operation on every model linked to the queried "
    "one; isolation of values is only demanded for models not linked (in either direction) to the "
    "op's target by cross-model references",
    "a refused rename (name taken, rename_old=False) may either change nothing or perform the "
    "rename with a backup of the other model; both are accepted",
    "state merging on the canonical state (registry, per-model description / held values / graphs, "
    "namer counters, current model, creation count); audited without merging at depth-1",
    "CPython 3.12, PYTHONHASHSEED=0",
]

NAMES = ["X", "Y", "X_BAK1", "Model2"]      # Model2: an explicit name that collides with the auto-namer
SAVED_NAME = "X"

RENAMES = [["X", False], ["X", True], ["Y", False], ["Y", True], ["X_BAK1", False], ["X_BAK1", True],
           ["Model2", False],
           ["2bad", False], ["_x", True]]      # invalid names: the rename is rejected and nothing changes

# a tier is a list of phases; every phase is an exhaustive BFS of its own alphabet to its own depth
BOUNDS = {
    "quick": [
        {"id": "base-d4", "depth": 4, "max_models": 3, "edits": ["populate", "ref", "value"],
         "reads": [["good", None], ["good", "Y"], ["bad", None], ["bad0", None]],
         "rename_to": RENAMES, "prefix": 2},
    ],
    "thorough": [
        {"id": "base-d5", "depth": 5, "max_models": 3, "edits": ["populate", "ref", "value"],
         "reads": [["good", None], ["good", "Y"], ["bad", None], ["bad0", None]],
         "rename_to": RENAMES, "prefix": 3},
        {"id": "wide-d4", "depth": 4, "max_models": 4, "edits": ["populate", "ref", "value", "cells", "space"],
         "reads": [["good", None], ["good", "Y"], ["bad", None], ["bad0", None], ["bad", "Y"]],
         "rename_to": RENAMES, "prefix": 2},
    ],
}


def jd(o):
    return json.dumps(o, sort_keys=True, default=repr)


# --------------------------------------------------------------------------------------
# scratch directory with the saved models

class Scratch:
    """One temp root per work item; tempfile.tempdir points into it while modelx runs."""

    def __init__(self):
        self.root = None
        self._old = None

    def __enter__(self):
        self._old = tempfile.tempdir
        self.root = tempfile.mkdtemp(prefix="mxmc-c19-")
        tempfile.tempdir = self.root
        try:
            build_saved(self.root)
        except BaseException:
            self.__exit__(None, None, None)
            raise
        return self

    def __exit__(self, *exc):
        tempfile.tempdir = self._old
        if self.root:
            shutil.rmtree(self.root, ignore_errors=True)
        self.root = None
        return False

    def path(self, src):
        return os.path.join(self.root, "saved_" + src)


def build_saved(root):
    reset_world()
    m = mx.new_model(SAVED_NAME)
    populate(m)
    m.S.f[5] = 50
    mx.write_model(m, os.path.join(root, "saved_good"), backup=False)
    reset_world()
    # fails midway: after the model was created and renamed, while its first space is parsed
    bad = os.path.join(root, "saved_bad")
    shutil.copytree(os.path.join(root, "saved_good"), bad)
    with open(os.path.join(bad, "S", "__init__.py"), "a") as f:
        f.write("\ndef (:\n")
    # fails earlier: the model file itself cannot be parsed (a model has already been created)
    bad0 = os.path.join(root, "saved_bad0")
    shutil.copytree(os.path.join(root, "saved_good"), bad0)
    with open(os.path.join(bad0, "__init__.py"), "a") as f:
        f.write("\ndef (:\n")


def populate(m):
    s = m.new_space("S")
    s.r = 1
    s.new_cells("f", formula="lambda x: x + r")
    s.new_cells("k", formula="lambda x: xr(x) + 1")


# --------------------------------------------------------------------------------------
# world = real session + handles + reference model

class World:
    def __init__(self, scratch):
        self.scratch = scratch
        self.handles = []      # every model ever created (interfaces)
        self.ref = []          # reference model: one dict per handle
        self.created = 0       # creations attempted (new / read, also failed reads)
        self.last = {}         # facts about the last step (vacuity bookkeeping)

    # -- reference model queries -------------------------------------------------------
    def open_idx(self):
        return [i for i, r in enumerate(self.ref) if r["open"]]

    def idx_of(self, name):
        for i, r in enumerate(self.ref):
            if r["open"] and r["name"] == name:
                return i
        return None

    def component(self, i):
        """Handles linked to i through cross-model references (either direction, transitive)."""
        comp = {i}
        changed = True
        while changed:
            changed = False
            for a, r in enumerate(self.ref):
                b = r["xr"]
                if b is None:
                    continue
                if (a in comp) != (b in comp):
                    comp.update((a, b))
                    changed = True
        return comp


def new_ref_entry(name, populated=False):
    return {"name": name, "open": True, "pop": populated, "xr": None, "r": 1,
            "val": False, "g": False, "T": False}


def applicable(w, op, bounds):
    k = op["op"]
    if k in ("new", "read"):
        return w.created < bounds["max_models"]
    if k == "reclose":      # close() on a handle that is already closed (its name may have been re-used)
        return op["i"] < len(w.ref) and not w.ref[op["i"]]["open"]
    i = w.idx_of(op["m"])
    if i is None:
        return False
    r = w.ref[i]
    if k in ("rename", "close"):
        return True
    if k == "edit":
        kind = op["kind"]
        if kind == "populate":
            return not r["pop"]
        if kind == "space":
            return not r["T"]
        if not r["pop"]:
            return False
        if kind == "value":
            return not r["val"]
        if kind == "cells":
            return not r["g"]
        return kind == "ref"
    if k == "xref":
        j = w.idx_of(op["to"])
        return j is not None and j != i and w.ref[j]["pop"] and r["xr"] is None
    if k == "query":
        return r["pop"]
    return False


def alphabet(w, bounds):
    ops = []
    if w.created < bounds["max_models"]:
        for n in [None] + NAMES:
            ops.append({"op": "new", "name": n})
        for src, n in bounds["reads"]:
            ops.append({"op": "read", "src": src, "name": n})
    names = sorted(w.ref[i]["name"] for i in w.open_idx())
    for m in names:
        for to, ro in bounds["rename_to"]:
            ops.append({"op": "rename", "m": m, "to": to, "ro": ro})
        ops.append({"op": "close", "m": m})
        for kind in bounds["edits"]:
            ops.append({"op": "edit", "m": m, "kind": kind})
        for b in names:
            if b != m:
                ops.append({"op": "xref", "m": m, "to": b})
        ops.append({"op": "query", "m": m})
    closed = [i for i, r in enumerate(w.ref) if not r["open"]]
    for i in closed[:1]:
        ops.append({"op": "reclose", "i": i})
    return [op for op in ops if applicable(w, op, bounds)]


ALL_BOUNDS = {"max_models": 10 ** 6}     # replay of a stored case: only "not applicable" ops are skipped


def apply_impl(w, op):
    """Apply op through public API.  Returns (observation, new model interface or None)."""
    k = op["op"]
    if k == "new":
        box = []
        obs = observe(lambda: box.append(mx.new_model(op["name"])) or box[0].name)
        return obs, (box[0] if box else None)
    if k == "read":
        box = []
        kw = {"name": op["name"]} if op["name"] else {}
        obs = observe(lambda: box.append(mx.read_model(w.scratch.path(op["src"]), **kw)) or box[0].name)
        return obs, (box[0] if box else None)
    if k == "reclose":
        return observe(w.handles[op["i"]].close), None
    i = w.idx_of(op["m"])
    m = w.handles[i]
    if k == "rename":
        return observe(lambda: m.rename(op["to"], rename_old=op["ro"])), None
    if k == "close":
        return observe(m.close), None
    if k == "edit":
        kind = op["kind"]
        if kind == "populate":
            return observe(lambda: populate(m)), None
        if kind == "ref":
            newv = 3 - w.ref[i]["r"]
            return observe(lambda: setattr(m.S, "r", newv)), None
        if kind == "value":
            return observe(lambda: m.S.f.__setitem__(0, 10)), None
        if kind == "cells":
            return observe(lambda: (m.S.new_cells("g", formula="lambda x: f(x) * 2"), None)[1]), None
        if kind == "space":
            return observe(lambda: (m.new_space("T"), None)[1]), None
    if k == "xref":
        b = w.handles[w.idx_of(op["to"])]
        return observe(lambda: setattr(m, "xr", b.S.f)), None
    if k == "query":
        o1 = observe(lambda: m.S.f(1))
        o2 = observe(lambda: m.S.k(1)) if w.ref[i]["xr"] is not None else None
        return ("ok", [o1, o2]), None
    raise ValueError(op)


def snapshot(w):
    """Per open handle (reference view): description without the name, held values."""
    snap = {}
    for i in w.open_idx():
        m = w.handles[i]
        snap[i] = {
            "desc": jd(describe_model(m, with_values=True, with_name=False)),
            "held": jd(safe(lambda: sorted([list(k) + list(v) for k, v in held_values(m).items()], key=repr))),
        }
    return snap


def registry_view():
    """name -> interface, as published by mx.get_models()."""
    return dict(mx.get_models())


def step(w, op, check):
    """Apply one applicable op; update the reference model; evaluate the clauses.

    Returns (violation tuples [(clause, observed, expected)], observation)."""
    viols = []

    def bad(clause, observed, expected):
        viols.append((clause, observed, expected))

    k = op["op"]
    pre_names = {i: w.ref[i]["name"] for i in w.open_idx()}
    pre_open = set(pre_names)
    if check:
        pre_snap = snapshot(w)
        pre_reg = registry_view()
    target = None
    comp = set()
    if k not in ("new", "read", "reclose"):
        target = w.idx_of(op["m"])
        comp = w.component(target)

    obs, newm = apply_impl(w, op)
    ok = obs[0] == "ok"
    w.last = {}

    # ---- reference model: who may have which name now --------------------------------
    # expect[i] = set of acceptable predicates, encoded as ("eq", name) / ("bak", prefix)
    expect = {i: [("eq", n)] for i, n in pre_names.items()}
    new_idx = None
    if k in ("new", "read"):
        w.created += 1
        want = op["name"] if k == "new" else (op["name"] or SAVED_NAME)
        holder = next((i for i, n in pre_names.items() if n == want), None) if want else None
        if newm is not None:
            new_idx = len(w.handles)
            w.handles.append(newm)
            w.ref.append(new_ref_entry(safe(lambda: newm.name), populated=(k == "read")))
            if k == "read":
                w.ref[new_idx]["val"] = False
            expect[new_idx] = [("eq", want)] if want else [("auto",)]
            if holder is not None:
                expect[holder] = [("bak", want)]
                w.last["collision_" + k] = 1
        else:
            # creation failed: nobody new; the holder of the name may or may not have been moved aside
            if holder is not None:
                expect[holder] = [("eq", want), ("bak", want)]
    elif k == "rename":
        to = op["to"]
        holder = next((i for i, n in pre_names.items() if n == to and i != target), None)
        if to == pre_names[target]:
            pass
        elif not ok:
            if holder is not None and op["ro"]:
                expect[holder] = [("eq", to), ("bak", to)]
        elif holder is None:
            expect[target] = [("eq", to)]
        elif op["ro"]:
            expect[target] = [("eq", to)]
            expect[holder] = [("bak", to)]
            w.last["collision_rename"] = 1
        else:
            w.last["refused_rename"] = 1
            expect[target] = [("eq", pre_names[target]), ("eq", to)]
            expect[holder] = [("eq", to), ("bak", to)]
    elif k == "close":
        if ok:
            w.ref[target]["open"] = False
            del expect[target]
    elif k == "edit" and ok:
        r = w.ref[target]
        kind = op["kind"]
        if kind == "populate":
            r["pop"] = True
        elif kind == "ref":
            r["r"] = 3 - r["r"]
        elif kind == "value":
            r["val"] = True
        elif kind == "cells":
            r["g"] = True
        elif kind == "space":
            r["T"] = True
    elif k == "xref" and ok:
        w.ref[target]["xr"] = w.idx_of(op["to"])

    # record the names the implementation chose where the property leaves a choice
    actual = {}
    for i in expect:
        actual[i] = safe(lambda: w.handles[i].name)
    name_ok = {}
    for i, alts in expect.items():
        a = actual[i]
        good = False
        for alt in alts:
            if alt[0] == "eq":
                good = good or a == alt[1]
            elif alt[0] == "bak":
                good = good or (isinstance(a, str) and a.startswith(alt[1] + "_BAK")
                                and a[len(alt[1]) + 4:].isdigit())
            elif alt[0] == "auto":
                good = good or (isinstance(a, str) and a.isidentifier())
        name_ok[i] = good
        w.ref[i]["name"] = a
    if k == "rename" and ok and op["to"] != pre_names[target]:
        # the two acceptable outcomes of a refused rename must not be mixed
        holder = next((i for i, n in pre_names.items() if n == op["to"] and i != target), None)
        if holder is not None and not op["ro"]:
            moved = actual[target] == op["to"]
            if moved != (actual[holder] != op["to"]):
                name_ok[target] = False

    if not check:
        return viols, obs

    # ---- registry ------------------------------------------------------------------------
    reg = registry_view()
    open_now = w.open_idx()
    exp_names = {w.ref[i]["name"]: i for i in open_now}
    wrong_names = sorted(str(pre_names.get(i, "<new>")) + "->" + str(actual[i])
                         for i, g in name_ok.items() if not g)
    if wrong_names:
        bad("registry", {"names": wrong_names, "op": op},
            {str(pre_names.get(i, "<new>")): expect[i] for i in expect if not name_ok[i]})
    if len(exp_names) != len(open_now):
        bad("registry", {"duplicate names among open models": sorted(str(w.ref[i]["name"]) for i in open_now)},
            "unique names")
    mism = []
    for n, i in exp_names.items():
        if reg.get(n) is not w.handles[i]:
            mism.append([n, "registered: " + (safe(lambda: reg[n].name) if n in reg else "<absent>")])
        elif safe(lambda: mx.get_object(n)) is not w.handles[i]:
            mism.append([n, "get_object gives another object"])
    extra_keys = sorted(set(reg) - set(exp_names))
    if mism or extra_keys:
        bad("registry", {"mismatch": mism, "unexpected": extra_keys, "registered": sorted(reg)},
            sorted(map(str, exp_names)))

    # ---- never-dropped -------------------------------------------------------------------
    missing = [w.ref[i]["name"] for i in open_now
               if not any(v is w.handles[i] for v in reg.values())]
    if len(reg) != len(open_now) or missing:
        bad("never-dropped", {"registered": sorted(reg), "open handles missing": missing},
            {"open": len(open_now)})

    # ---- close -----------------------------------------------------------------------------
    if k == "close" and ok:
        gone = [n for n, v in pre_reg.items() if not any(v is x for x in reg.values())]
        came = [n for n, v in reg.items() if not any(v is x for x in pre_reg.values())]
        kept_renamed = [n for n, v in pre_reg.items() if n in reg and reg[n] is not v]
        closed_still = any(v is w.handles[target] for v in reg.values())
        if closed_still or gone != [pre_names[target]] or came or kept_renamed:
            bad("close", {"removed": gone, "added": came, "still registered": closed_still,
                          "rebound": kept_renamed}, {"removed": [pre_names[target]]})
    elif k == "close" and not ok:
        bad("close", {"raised": obs[1]}, "an open model can be closed")

    # ---- isolation -------------------------------------------------------------------------
    post = snapshot(w)
    for i in sorted(pre_open):
        if i == target or i not in post:
            continue
        if post[i]["desc"] != pre_snap[i]["desc"]:
            bad("isolation", {"model": pre_names[i], "what": "definitions changed", "op": op,
                              "before": json.loads(pre_snap[i]["desc"]), "after": json.loads(post[i]["desc"])},
                "unchanged")
        if i not in comp and pre_snap[i]["held"] != "[]":
            w.last["isolation_values_compared"] = 1
        if post[i]["desc"] != pre_snap[i]["desc"]:
            pass
        elif i not in comp and post[i]["held"] != pre_snap[i]["held"]:
            bad("isolation", {"model": pre_names[i], "what": "values changed", "op": op,
                              "before": json.loads(pre_snap[i]["held"]), "after": json.loads(post[i]["held"])},
                "unchanged")
    return viols, obs


def canon(w):
    models = {}
    for i in w.open_idx():
        m = w.handles[i]
        r = w.ref[i]
        xr = r["xr"]
        models[str(r["name"])] = {
            "desc": describe_model(m, with_values=True, with_name=False, with_items=True),
            "held": safe(lambda: sorted([list(k) + list(v) for k, v in held_values(m).items()], key=repr)),
            "graph": safe(lambda: graph_state(m)),
            "xr": None if xr is None else [w.ref[xr]["name"], w.ref[xr]["open"]],
            "ref": [r["pop"], r["r"], r["val"], r["g"], r["T"]],
            "path": safe(lambda: m.path is not None),
        }
    cur = mxsys.currentmodel
    return jd({
        "models": models,
        "registry": sorted(mxsys.models),
        "namers": [mxsys._modelnamer._AutoNamer__last_postfix, mxsys._backupnamer._AutoNamer__last_postfix],
        "current": None if cur is None else cur.name,
        "created": w.created,
        "exec": executor_quiescent(),
        "serializing": mxsys.serializing is not None,
    })


def replay(history, scratch, bounds, check="all"):
    """Replay a history from a fresh world.

    check: "all" (clauses after every op), "last" (only after the last op), "none".
    Returns (world, violations [(index, clause, observed, expected)], observations, skipped)."""
    reset_world()
    w = World(scratch)
    viols, obss, skipped = [], [], 0
    for n, op in enumerate(history):
        if not applicable(w, op, bounds):
            skipped += 1
            obss.append(None)
            continue
        chk = check == "all" or (check == "last" and n == len(history) - 1)
        vs, obs = step(w, op, chk)
        obss.append(obs)
        for (c, o, e) in vs:
            viols.append((n, c, o, e))
        if vs:
            break       # violating states are terminal
    return w, viols, obss, skipped


def outcome(op, obs, w):
    return digest([op["op"], op.get("kind"), op.get("src"), obs[0], obs[1] if obs[0] == "exc" else None,
                   sorted(str(w.ref[i]["name"]) for i in w.open_idx())])


# --------------------------------------------------------------------------------------
# exploration

def explore(prefix, depth, scratch, bounds, merge=True, counts=None, outcomes=None, samples=None,
            check_prefix=True):
    """BFS below ``prefix`` up to total history length ``depth``.

    Returns (violations, state digests, violation keys {(state-before, op, clause)})."""
    counts = counts if counts is not None else {}
    outcomes = outcomes if outcomes is not None else set()
    viols = []
    vkeys = set()

    def cnt(k, n=1):
        counts[k] = counts.get(k, 0) + n

    def report(hist, vs):
        for (n, c, o, e) in vs:
            viols.append({"clause": c, "case": {"history": hist[:n + 1]}, "observed": o, "expected": e})

    w, vs, obss, skipped = replay(prefix, scratch, bounds, check="all" if check_prefix else "none")
    cnt("transitions", len(prefix) - skipped)
    if skipped:
        return viols, set(), vkeys          # prefix not realisable (cannot happen for generated prefixes)
    if vs:
        report(prefix, vs)
        for (n, c, o, e) in vs:
            vkeys.add(("<prefix>", jd(prefix[:n + 1]), c))
        return viols, set(), vkeys
    for op, obs in zip(prefix, obss):
        tally(op, obs, counts)
    k0 = canon(w)
    seen = {k0}
    frontier = [(list(prefix), alphabet(w, bounds), k0)]
    for d in range(len(prefix) + 1, depth + 1):
        nxt = []
        for hist, ops, kb in frontier:
            for op in ops:
                h2 = hist + [op]
                w, vs, obss, skipped = replay(h2, scratch, bounds, check="last")
                assert not skipped, "harness: generated op not applicable on replay"
                cnt("transitions")
                cnt("ops_executed", len(h2))
                obs = obss[-1]
                tally(op, obs, counts, w.last)
                outcomes.add(outcome(op, obs, w))
                if vs:
                    cnt("violating_transitions")
                    report(h2, vs)
                    for (n, c, o, e) in vs:
                        vkeys.add((digest(kb), jd(op), c))
                    continue
                k = canon(w)
                if merge and k in seen:
                    cnt("merged")
                    continue
                seen.add(k)
                if d == depth:
                    if samples is not None and len(samples) < 2:
                        samples.append({"history": h2})
                    continue
                nxt.append((h2, alphabet(w, bounds), k))
        frontier = nxt
    cnt("states", len(seen))
    return viols, {digest(s) for s in seen}, vkeys


def tally(op, obs, counts, last=None):
    def cnt(k):
        counts[k] = counts.get(k, 0) + 1
    if obs is None:
        return
    for k in (last or {}):
        cnt(k)
    if obs[0] == "exc":
        cnt("ops_raised")
        if op["op"] == "read":
            cnt("failed_reads")
    if op["op"] == "query":
        cnt("queries")


def work_items(tier, seed):
    """Per phase: all realisable histories of b["prefix"] ops (shorter ones where a history is terminal)."""
    items = []
    with Scratch() as sc:
        try:
            for ph, b in enumerate(BOUNDS[tier]):
                level = [[]]
                for d in range(b["prefix"]):
                    nxt = []
                    for h in level:
                        w, vs, obss, _ = replay(h, sc, b, check="all")
                        ops = [] if vs else alphabet(w, b)
                        if not ops:
                            if h:
                                items.append({"phase": ph, "prefix": h})   # terminal
                            continue
                        nxt.extend(h + [op] for op in ops)
                    level = nxt
                items.extend({"phase": ph, "prefix": h} for h in level)
                if tier == "thorough" or os.environ.get("MXMC_AUDIT"):
                    reset_world()
                    for op in alphabet(World(sc), b):
                        items.append({"phase": ph, "prefix": [op], "audit": True})
        finally:
            reset_world()
    items.sort(key=lambda it: -(BOUNDS[tier][it["phase"]]["depth"] - len(it["prefix"])
                                - (0.5 if it.get("audit") else 0)))
    return items


def run_audit(item, tier):
    """Canon audit: explore below a 1-op prefix to depth-1 with and without state merging; the sets of
    canonical states and of (state, op, clause) violation keys must coincide."""
    b = BOUNDS[tier][item["phase"]]
    counts = {}
    extra = {}
    with Scratch() as sc:
        try:
            c2, c3 = {}, {}
            v_m, s_m, k_m = explore(item["prefix"], b["depth"] - 1, sc, b, True, c2, set(), None)
            v_u, s_u, k_u = explore(item["prefix"], b["depth"] - 1, sc, b, False, c3, set(), None)
        finally:
            reset_world()
    counts["audit_transitions_unmerged"] = c3.get("transitions", 0)
    counts["audit_transitions_merged"] = c2.get("transitions", 0)
    counts["audit_states"] = len(s_m)
    mism = int(s_m != s_u) + int(k_m != k_u)
    counts["audit_mismatch"] = mism
    counts["audit_items"] = 1
    if mism:
        extra["canon_audit_mismatch_items"] = [item]
    res = {"counts": counts, "outcomes": [], "samples": [], "violations": []}
    if extra:
        res["extra"] = extra
    return res


def run_item(item, tier):
    if item.get("audit"):
        return run_audit(item, tier)
    b = BOUNDS[tier][item["phase"]]
    counts = {}
    outcomes = set()
    samples = []
    with Scratch() as sc:
        try:
            viols, states, vkeys = explore(item["prefix"], b["depth"], sc, b, True, counts, outcomes, samples)
        finally:
            reset_world()
    for k in ("states", "transitions"):
        counts["%s[%s]" % (k, b["id"])] = counts.get(k, 0)
    return {"counts": counts, "outcomes": sorted(outcomes), "samples": samples, "violations": viols}


def check_case(case):
    hist = case["history"]
    with Scratch() as sc:
        try:
            w, vs, obss, skipped = replay(hist, sc, ALL_BOUNDS, check="all")
        finally:
            reset_world()
    return [{"clause": c, "case": {"history": hist[:n + 1]}, "observed": o, "expected": e}
            for (n, c, o, e) in vs]


def shrink_candidates(case):
    h = case["history"]
    for k in range(len(h) - 1, -1, -1):
        yield {"history": h[:k] + h[k + 1:]}


# --------------------------------------------------------------------------------------
# stand-alone script

def script(case):
    hist = case["history"]
    L = ["import os, shutil, tempfile", "import modelx as mx", ""]
    needs_saved = any(op["op"] == "read" for op in hist)
    if needs_saved:
        L += [
            "root = tempfile.mkdtemp()",
            "def populate(m):",
            "    s = m.new_space('S'); s.r = 1",
            "    s.new_cells('f', formula='lambda x: x + r')",
            "    s.new_cells('k', formula='lambda x: xr(x) + 1')",
            "m = mx.new_model('X'); populate(m); m.S.f[5] = 50",
            "mx.write_model(m, os.path.join(root, 'saved_good'), backup=False); m.close()",
            "for bad, f in (('saved_bad', os.path.join('S', '__init__.py')), ('saved_bad0', '__init__.py')):",
            "    shutil.copytree(os.path.join(root, 'saved_good'), os.path.join(root, bad))",
            "    open(os.path.join(root, bad, f), 'a').write('\\ndef (:\\n')",
            "",
        ]
    else:
        L += [
            "def populate(m):",
            "    s = m.new_space('S'); s.r = 1",
            "    s.new_cells('f', formula='lambda x: x + r')",
            "    s.new_cells('k', formula='lambda x: xr(x) + 1')",
            "",
        ]
    # resolve names -> handle variables by replaying on the real thing
    lines = []
    with Scratch() as sc:
        try:
            reset_world()
            w = World(sc)
            for op in hist:
                if not applicable(w, op, ALL_BOUNDS):
                    lines.append("# skipped (not applicable): %s" % jd(op))
                    continue
                k = op["op"]
                i = w.idx_of(op["m"]) if "m" in op else None
                var = "m%d" % i if i is not None else None
                nxt = "m%d" % len(w.handles)
                if k == "new":
                    s = "%s = mx.new_model(%r)" % (nxt, op["name"])
                elif k == "read":
                    kw = ", name=%r" % op["name"] if op["name"] else ""
                    s = "%s = mx.read_model(os.path.join(root, 'saved_%s')%s)" % (nxt, op["src"], kw)
                elif k == "rename":
                    s = "%s.rename(%r, rename_old=%r)" % (var, op["to"], op["ro"])
                elif k == "close":
                    s = "%s.close()" % var
                elif k == "edit":
                    s = {"populate": "populate(%s)" % var,
                         "ref": "%s.S.r = %d" % (var, 3 - w.ref[i]["r"]),
                         "value": "%s.S.f[0] = 10" % var,
                         "cells": "%s.S.new_cells('g', formula='lambda x: f(x) * 2')" % var,
                         "space": "%s.new_space('T')" % var}[op["kind"]]
                elif k == "xref":
                    s = "%s.xr = m%d.S.f" % (var, w.idx_of(op["to"]))
                elif k == "query":
                    s = "print(%s.S.f(1))" % var
                    if w.ref[i]["xr"] is not None:
                        s += "; print(%s.S.k(1))" % var
                vs, obs = step(w, op, False)
                s = s + "    # " + jd(op)
                if obs[0] == "exc":
                    s = "try:\n    %s\nexcept Exception as e:\n    print('raised', type(e).__name__)" % s
                lines.append(s)
            nh = len(w.handles)
        finally:
            reset_world()
    L += lines
    L += ["",
          "print('registry:', {n: m for n, m in mx.get_models().items()})",
          "handles = [%s]" % ", ".join("m%d" % i for i in range(nh)),
          "print('handles :', [(h.name, any(h is v for v in mx.get_models().values())) for h in handles])",
          "print('values  :', [{n: dict(c) for n, c in h.S.cells.items()} if 'S' in h.spaces else None "
          "for h in handles])"]
    if needs_saved:
        L.append("shutil.rmtree(root)")
    return "\n".join(L)


# --------------------------------------------------------------------------------------
# evidence

def alphabet_size(b):
    return 4 + len(b["reads"]) + b["max_models"] * (len(b["rename_to"]) + 1 + len(b["edits"])
                                                     + (b["max_models"] - 1) + 1)


def coverage(agg, tier):
    c = agg["counts"]
    phases = BOUNDS[tier]
    cov = {
        "states": c.get("states", 0),
        "transitions": c.get("transitions", 0),
        "traces_validated_against_impl": c.get("transitions", 0),
        "depth": max(b["depth"] for b in phases),
        "roots": agg["items"],
        "alphabet_size": max(alphabet_size(b) for b in phases),
        "exhaustive": True,
        "caps_hit": [],
        "phases": [dict(b, alphabet_size=alphabet_size(b), states=c.get("states[%s]" % b["id"], 0),
                        transitions=c.get("transitions[%s]" % b["id"], 0)) for b in phases],
        "ops_raised": c.get("ops_raised", 0),
        "failed_reads": c.get("failed_reads", 0),
        "merged_transitions": c.get("merged", 0),
        "rule": "per phase: BFS over all histories of <= depth ops (alphabet restricted per state to applicable "
                "ops, at most max_models creations per history) from the empty session; work items = all "
                "applicable prefixes of `prefix` ops, each explored to the full depth with its own seen-set "
                "(states = sum over items of distinct canonical states); every transition is an execution of "
                "the real modelx from a fresh world",
    }
    if "audit_items" in c:
        cov["canon_audit"] = "ok" if c.get("audit_mismatch", 0) == 0 else "mismatch"
        cov["canon_audit_depth"] = "depth-1 of every phase, below every 1-op prefix"
        cov["canon_audit_states"] = c.get("audit_states", 0)
        cov["canon_audit_transitions_unmerged"] = c.get("audit_transitions_unmerged", 0)
        cov["canon_audit_transitions_merged"] = c.get("audit_transitions_merged", 0)
    return cov


def vacuity(agg, tier):
    c = agg["counts"]
    if c.get("states", 0) < 500:
        return "too few states (%d)" % c.get("states", 0)
    if c.get("failed_reads", 0) < 1:
        return "no read_model failed midway"
    if c.get("queries", 0) < 1:
        return "no query executed"
    for k in ("collision_new", "collision_read", "collision_rename", "refused_rename",
              "isolation_values_compared"):
        if c.get(k, 0) < 1:
            return "no transition of kind %s" % k
    if len(agg["outcomes"]) < 10:
        return "too few distinct outcomes"
    if c.get("audit_mismatch", 0):
        return "canon audit mismatch (merged and unmerged exploration disagree)"
