"""C17 The error traceback is exactly the chain that was executing.

Shapes with calls on known lines (def formulas), lambdas / comprehensions / generator expressions,
uncached links, ItemSpace (parameter formula and cells inside), a formula that catches the failure of
a callee.  BFS over arm / disarm / query histories with up to 2 armed faults, so that every failure is
preceded by every kind of earlier event (success, handled failure, unhandled failure).  Oracle: the
reference evaluator's stack (elements and line numbers) at the moment the exception escaped.
"""
import json

import modelx as mx
from modelx.core.errors import FormulaError, NoneReturnedError, DeepReferenceError
from mxmc import bfs, ops as O
from mxmc.faultfam import FaultWorld, shape_elems, arm_points, shape_spec, ref_frames
from mxmc.session import TICK, render, digest, raw_observe, session_canon, node_name, safe
from mxmc.drivers.c16 import all_dags
from mxmc.drivers import c05

PROPERTY = "C17"
LEVEL = "fault_enumeration"
ASSUMPTIONS = [
    "faults injected through tick() (line 2 of every def formula); reference stack and line numbers come from the "
    "reference evaluator running the same source text",
    "for NoneReturnedError / DeepReferenceError the failing element has no formula line; only the elements are compared there",
]
DEPTH = {"quick": 4, "thorough": 5}


def run_history(shape, hist):
    w = FaultWorld(shape)
    # error-reporting mode of the session: FormulaError raised (default) / the original exception raised /
    # FormulaError printed instead of raised; the traceback and the error are recorded in every mode
    mode = shape.get("mode")
    if mode == "raw":
        mx.use_formula_error(False)
    elif mode == "handled":
        mx.handle_formula_error(True)
    viols = []
    obs = []
    case = {"shape": shape, "history": hist}
    failed = 0
    handled = 0

    def bad(clause, observed, expected):
        viols.append({"clause": clause, "case": case, "observed": observed, "expected": expected})

    for idx, op in enumerate(hist):
        last = idx == len(hist) - 1
        if op["op"] == "arm":
            TICK.armed[tuple(op["elem"])] = op["kind"]
            obs.append("arm")
            continue
        if op["op"] == "disarm":
            TICK.armed.pop(tuple(op["elem"]), None)
            obs.append("disarm")
            continue
        before = w.held_map() if last else None
        nf0 = len(TICK.fired)
        if mode == "handled":
            import contextlib, io
            with contextlib.redirect_stderr(io.StringIO()):
                r = raw_observe(lambda: O._apply_impl(w.m, op))
        else:
            r = raw_observe(lambda: O._apply_impl(w.m, op))
        obs.append(("ok", render(r[1])) if r[0] == "ok" else ("exc", type(r[1]).__name__))
        if not last:
            continue
        (rr, rt, ev) = w.ref_eval(op["sp"], op["c"], tuple(op.get("args", [])), dict(before))
        if rr[0] == "ok":
            handled = int(len(rt.fired) > 0)
            if r[0] != "ok":
                bad("unexpected-failure", {"query": op, "got": obs[-1]}, {"reference": render(rr[1])})
            break
        e = rr[1]
        failed = 1
        handled = int(len(rt.fired) > 1)
        if mode == "raw":
            if r[0] != "exc" or type(r[1]) is not type(e):
                bad("no-original-error", {"query": op, "got": obs[-1]}, type(e).__name__)
                break
        elif mode == "handled":
            if r[0] != "ok":
                bad("not-handled", {"query": op, "got": obs[-1]}, "the error is printed, not raised")
                break
        elif r[0] != "exc" or not isinstance(r[1], FormulaError):
            bad("no-formula-error", {"query": op, "got": obs[-1]}, type(e).__name__)
            break
        tb = safe(lambda: mx.get_traceback())
        if isinstance(tb, str):
            bad("traceback-raises", tb, "a list")
            break
        got = [[list(node_name(n._impl)), line] for n, line in tb]
        exp_nodes = [list(x) for x in getattr(e, "_ref_stack", [])]
        exp_lines = ref_frames(e)
        if [g[0] for g in got] != exp_nodes:
            bad("frames", {"query": op, "traceback": got}, {"chain": exp_nodes})
            break
        noline = isinstance(e, (NoneReturnedError, DeepReferenceError))
        for i, g in enumerate(got):
            if i < len(exp_lines) and not (noline and i == len(got) - 1):
                if g[1] != exp_lines[i]:
                    bad("lines", {"query": op, "traceback": got}, {"lines": exp_lines})
                    break
        if viols:
            break
        orig = mx.get_error()
        injected = [f for f in TICK.fired[nf0:] if f[2] is not None]
        if type(orig) is not type(e) or (injected and not noline and not isinstance(e, TypeError)
                                         and orig is not injected[-1][2]):
            bad("error", {"get_error": type(orig).__name__}, type(e).__name__)
            break
        # get_traceback(show_locals=True) describes the same frames
        tb2 = safe(lambda: mx.get_traceback(show_locals=True))
        if isinstance(tb2, str) or [list(node_name(n._impl)) for n, _, _ in tb2] != exp_nodes:
            bad("frames-locals", {"traceback": tb2 if isinstance(tb2, str) else
                                  [list(node_name(n._impl)) for n, _, _ in tb2]}, {"chain": exp_nodes})
    canon = session_canon(extra={"armed": sorted([list(k), v] for k, v in TICK.armed.items()),
                                 "rolledback": len(mx.core.mxsys.executor.rolledback)}, with_graph=False)
    return canon, viols, digest(obs), {"failed": failed, "handled": handled}


def shapes(tier):
    out = [{"kind": "catcher", "kinds": ["ValueError", "Base", "None"]},
           {"kind": "lambda", "kinds": ["ValueError"]},
           {"kind": "item", "kinds": ["ValueError", "None"]},
           {"kind": "rec", "kinds": ["ValueError", "None"]},
           {"kind": "rec", "uncached": True, "kinds": ["ValueError"]},
           {"kind": "rec", "maxdepth": 2, "kinds": ["ValueError"]},
           {"kind": "catcher", "kinds": ["ValueError", "None"], "mode": "raw"},
           {"kind": "catcher", "kinds": ["ValueError", "None"], "mode": "handled"},
           {"kind": "item", "kinds": ["ValueError"], "mode": "raw"},
           {"kind": "dag", "n": 3, "edges": [[0, 1], [1, 2]], "uncached": [1], "kinds": ["ValueError"], "mode": "raw"},
           {"kind": "dag", "n": 3, "edges": [[0, 1], [1, 2]], "uncached": [], "kinds": ["ValueError"], "mode": "handled"}]
    nmax = 3 if tier == "quick" else 4
    for n in range(2, nmax + 1):
        for edges in all_dags(n):
            if len(edges) < n - 1:
                continue
            out.append({"kind": "dag", "n": n, "edges": edges, "uncached": [], "kinds": ["ValueError", "None"]})
            for u in range(n):
                if any(j == u for (j, k) in edges) and any(k == u for (j, k) in edges):
                    out.append({"kind": "dag", "n": n, "edges": edges, "uncached": [u], "kinds": ["ValueError"]})
    return out


def work_items(tier, seed):
    items = []
    for s in shapes(tier):
        for pt in arm_points(s):
            items.append({"shape": s, "first": list(pt)})
        items.append({"shape": s, "first": None})
    return items


def run_item(item, tier):
    shape = item["shape"]
    st = {"failed": 0, "handled": 0}

    def rh(h):
        c, v, d, info = run_history(shape, h)
        st["failed"] += info["failed"]
        st["handled"] += info["handled"]
        return c, v, d, info
    base = c05.make_enabled(shape, "thorough", item["first"], item["first"] is None)

    def enabled(hist, info):
        out = base(hist, info)
        if shape.get("maxdepth"):
            lim = shape["maxdepth"]
            out = [o for o in out if not (o["op"] == "q" and
                                          ((o["args"][0] + 1) if o["c"] == "v" else 4) in (lim, lim + 1))]
        return out
    res = bfs.explore(rh, enabled, DEPTH[tier])
    res.samples = [{"shape": shape, "history": h} for h in res.samples[:1]]
    out = res.as_item_result()
    out["counts"]["failed_queries"] = st["failed"]
    out["counts"]["queries_with_handled_failure"] = st["handled"]
    return out


def check_case(case):
    return run_history(case["shape"], case["history"])[1]


shrink_candidates = c05.shrink_candidates


def script(case):
    pre = {"raw": "mx.use_formula_error(False)\n", "handled": "mx.handle_formula_error(True)\n"}.get(
        case["shape"].get("mode"), "")
    return c05.script(case).replace("armed = {}", pre + "armed = {}", 1) + "\nprint(mx.get_traceback())"


def coverage(agg, tier):
    c = agg["counts"]
    return {"evaluations": c.get("transitions", 0), "distinct_nontrivial": len(agg["outcomes"]),
            "rule": "BFS over arm/disarm/query histories (depth %d, <= 2 armed faults) on every shape, every element "
                    "(and the ItemSpace node) as failure point; distinct_nontrivial = distinct observation sequences; "
                    "failing queries judged: %d, of which preceded within the same query by a handled failure: %d"
                    % (DEPTH[tier], c.get("failed_queries", 0), c.get("queries_with_handled_failure", 0)),
            "states": c.get("states", 0), "failed_queries": c.get("failed_queries", 0),
            "queries_with_handled_failure": c.get("queries_with_handled_failure", 0), "exhaustive": True}


def vacuity(agg, tier):
    c = agg["counts"]
    if c.get("failed_queries", 0) < 300:
        return "too few failing queries: %s" % c
