"""C11 Rejected edits change nothing; the inheritance relation stays well-formed.

States: every root of the structure family (all linearisable ordered-base DAGs on 3 spaces x member
placements, with extra members: input, non-scalar cells, uncached cells, child space) and every state one
valid structural op away.  In each state EVERY applicable operation of a catalogue of invalid operations
(rejection reason x operation) is applied.  If it raises: the full public description, all values and the
library's self-checks must be as before.  If it is accepted: the base relation must be acyclic and
linearisable (CPython C3) and every user-created name a valid identifier not starting with '_'.
"""
import copy
import itertools
import json

import networkx as nx
import modelx as mx
from modelx.core.system import mxsys

from mxmc import ops as O
from mxmc.structfam import (ordered_dags, NAMES3, StructWorld, impl_view, struct_ops, valid_in_ref, xsrc)
from mxmc.refsem import NoLinearisation, RefModel
from mxmc.session import digest, observe, render, describe_model, safe, walk_spaces, space_path

PROPERTY = "C11"
LEVEL = "model_checking"
ASSUMPTIONS = [
    "an operation is 'rejected' iff it raises; nothing is demanded about WHICH operations are rejected except "
    "well-formedness of what is accepted (acyclic, linearisable, valid names)",
    "description = public API view (spaces, direct bases, MRO, cells with source/flags/inputs, references with "
    "value/mode/derived flag, parameter formulas, docs) + values of every cells at fixed arguments",
]

BAD_NAMES = ["1x", "_x", "def", "", 5]


def py(code, reason, setup=None):
    d = {"op": "py", "code": code, "reason": reason}
    if setup:
        d["setup"] = setup      # valid statement(s) executed before the state is recorded
    return d


def extras_ops():
    """Extra members created in every root (after the canonical construction)."""
    return [
        py("m.A.new_cells('z', formula='lambda a: a * 2')", "setup"),
        py("m.A.z[1] = 5", "setup"),
        py("m.B.new_cells('u', formula='lambda a: a + 1', is_cached=False)", "setup"),
        py("m.A.new_space('T')", "setup"),
        py("m.A.T.new_cells('tc', formula='lambda: 7')", "setup"),
        py("m.C.new_cells('k', formula='lambda: 3')", "setup"),
        py("m.C.k.value = 4", "setup"),
        py("m.G = 1", "setup"),
        # inputs held by *derived* cells (where B / C derive z from A; rejected elsewhere, which is fine)
        py("m.B.z[2] = 9", "setup"),
        py("m.C.z[3] = 8", "setup"),
    ]


def invalid_ops(rm, extras, full=True):
    """full=False: only the categories whose applicability depends on the inheritance structure and member
    placement (clashes, ill-formed bases, relative references, derived members, non-bases)."""
    ops = []
    spaces = [p for p in rm.all_paths() if "." not in p]
    # 1. invalid names
    for n in (BAD_NAMES if full else []):
        r = "invalid-name"
        ops.append(py("m.new_space(%r)" % (n,), r))
        ops.append(py("mx.new_model(%r)" % (n,), r))
        ops.append(py("m.rename(%r)" % (n,), r))
        for s in spaces[:2]:
            ops.append(py("m.%s.new_cells(%r, formula='lambda: 1')" % (s, n), r))
            ops.append(py("m.%s.new_space(%r)" % (s, n), r))
            ops.append(py("m.%s.rename(%r)" % (s, n), r))
            if isinstance(n, str):
                ops.append(py("m.%s.set_ref(%r, 1, 'auto')" % (s, n), r))
                ops.append(py("setattr(m.%s, %r, 1)" % (s, n), r)) if n else None
            if "x" in rm.space(s).cells:
                ops.append(py("m.%s.x.rename(%r)" % (s, n), r))
    # names that come from the definition instead of the name argument (accepted with an automatic name, or
    # rejected - never taken over)
    for s in (spaces[:2] if full else []):
        r = "invalid-name"
        ops.append(py("m.%s.new_cells(formula='def _f(a):\\n    return a')" % s, r))
        ops.append(py("m.%s.new_cells('1abc', formula='def _g(a):\\n    return a')" % s, r))
        ops.append(py("m.%s.new_cells(None, formula='def _space(a):\\n    return a')" % s, r))
        ops.append(py("m.%s.new_cells(formula='def __init__(a):\\n    return a')" % s, r))
    # 2. clashing names
    for s in spaces:
        sp = rm.space(s)
        try:
            cells = rm.cells_of(s)
            refs = rm.refs_of(s)
        except NoLinearisation:
            continue
        r = "clash"
        if "y" in refs:
            ops.append(py("m.%s.new_cells('y', formula='lambda: 1')" % s, r))
            ops.append(py("m.%s.new_space('y')" % s, r))
            if "x" in sp.cells:
                ops.append(py("m.%s.x.rename('y')" % s, r))
            for b in rm.mro(s)[1:]:       # new member in a base clashing with a ref of the sub
                if "y" not in rm.refs_of(b):
                    ops.append(py("m.%s.new_cells('y', formula='lambda: 1')" % b, r))
                    ops.append(py("m.%s.new_space('y')" % b, r))
        if "x" in cells:
            ops.append(py("m.%s.new_space('x')" % s, r))
            ops.append(py("m.%s.set_ref('x', 1, 'auto')" % s, r))
            if "x" in sp.cells:
                ops.append(py("m.%s.new_cells('x', formula='lambda: 1')" % s, r))
            for b in rm.mro(s)[1:]:
                if "x" not in rm.cells_of(b):
                    ops.append(py("m.%s.new_space('x')" % b, r))
                    ops.append(py("m.%s.set_ref('x', 1, 'auto')" % b, r))
        ops.append(py("m.rename_space = None" if False else "m.%s.rename(%r)" % (s, [t for t in spaces if t != s][0]), r))
        ops.append(py("m.new_space(%r)" % s, r))
        ops.append(py("m.%s = 1" % s, r))
        if extras:
            ops.append(py("m.new_space('G')", r))
            ops.append(py("m.%s.new_cells('G', formula='lambda: 1')" % s, r))
    # 3. cyclic inheritance / no linearisation
    for s in spaces:
        for t in spaces:
            if s != t and t not in rm.space(s).bases:
                op = {"op": "add_bases", "sp": s, "bases": [t]}
                if not valid_in_ref(rm, op):
                    ops.append(dict(op, reason="ill-formed-bases"))
        ops.append(dict({"op": "add_bases", "sp": s, "bases": [s]}, reason="ill-formed-bases"))
    for bs in itertools.permutations(spaces, 2):
        op = {"op": "new_space", "sp": "", "n": "D", "bases": list(bs), "formula": None}
        if not valid_in_ref(rm, op):
            ops.append(dict(op, reason="ill-formed-bases"))
    for bs in itertools.permutations(spaces, 3):
        op = {"op": "new_space", "sp": "", "n": "D", "bases": list(bs), "formula": None}
        if not valid_in_ref(rm, op):
            ops.append(dict(op, reason="ill-formed-bases"))
    # 4. relative reference that cannot be rebound
    for s in spaces:
        others = [t for t in spaces if t != s]
        r = "relative-ref"
        ops.append(py("m.%s.set_ref('rr', m.%s, 'relative')" % (s, others[0]), r))
        for t in others:
            if s not in rm.mro(t) and valid_in_ref(rm, {"op": "add_bases", "sp": t, "bases": [s]}):
                # s gets a relative reference to an outside object, then t tries to derive from s
                st = "m.%s.set_ref('rr', m.%s, 'relative')" % (s, t)
                ops.append(py("m.%s.add_bases(m.%s)" % (t, s), r + "-add-bases", setup=st))
                ops.append(py("m.new_space('D', bases=[m.%s])" % s, r + "-new-space", setup=st))
    # 5. derived members
    for s in spaces:
        sp = rm.space(s)
        try:
            cells, refs = rm.cells_of(s), rm.refs_of(s)
        except NoLinearisation:
            continue
        r = "derived-member"
        if "x" in cells and "x" not in sp.cells:
            ops.append(py("del m.%s.x" % s, r))
            ops.append(py("m.%s.x.rename('x9')" % s, r))
        if "y" in refs and "y" not in sp.refs:
            ops.append(py("del m.%s.y" % s, r))
    # 6. malformed formulas
    for s in (spaces[:2] if full else []):
        r = "malformed-formula"
        for f in ("lambda x: (", "1 + 1", "def f(x) return x", "class K: pass"):
            ops.append(py("m.%s.new_cells('bad', formula=%r)" % (s, f), r))
            ops.append(py("m.%s.formula = %r" % (s, f), r))
            if "x" in rm.cells_of(s):
                ops.append(py("m.%s.x.formula = %r" % (s, f), r))
        ops.append(py("m.%s.new_cells('bad', formula=5)" % s, r))
        ops.append(py("m.%s.new_space('Dbad', formula='lambda i: (')" % s, r))
        # a space that already has a parameter formula (and an ItemSpace)
        ops.append(py("m.%s.formula = 'lambda i: ('" % s, r, setup="m.%s.formula = 'lambda i: None'; m.%s[1]" % (s, s)))
        ops.append(py("m.%s.formula = 5" % s, r, setup="m.%s.formula = 'lambda i: None'" % s))
        if "x" in rm.cells_of(s):
            # malformed formulas that are not strings
            ops.append(py("m.%s.x.formula = 5" % s, r))
            ops.append(py("m.%s.x.formula = len" % s, r))
            ops.append(py("m.%s.x.formula = (lambda: 1, lambda: 2)[0]" % s, r))
            ops.append(py("m.%s.x.set_formula(3.5)" % s, r))
    # 7. unassignable values
    r = "unassignable"
    for s in (spaces if full else []):
        if "x" in rm.cells_of(s):
            ops.append(py("m.%s.x[()] = None" % s, r))
            ops.append(py("m.%s.x[1] = 3" % s, r))          # too many arguments
    if extras:
        ops.append(py("m.A.z[1] = None", r))                 # existing input
        ops.append(py("m.A.z[2] = None", r))                 # empty element
        ops.append(py("m.A.z[[1]] = 3", r))                  # unhashable key
        ops.append(py("m.A.z = 3", r))                       # attribute assignment to a non-scalar cells
        ops.append(py("m.A.z.value = 3", r))
        ops.append(py("m.B.u[1] = 3", r))                    # uncached
        ops.append(py("m.C.k.value = None", r))              # existing scalar input
        ops.append(py("m.C.k = None", r))
        ops.append(py("m.A.z[1, 2] = 3", r))
        ops.append(py("m.A.T.tc.value = None", r, setup="m.A.T.tc.allow_none = False"))
        # allow_none is three-valued and resolved cells -> space -> model: an explicit False on the cells wins
        ops.append(py("m.A.z[1] = None", r, setup="m.A.z.allow_none = False; m.A.allow_none = True"))
        ops.append(py("m.C.k.value = None", r, setup="m.C.k.allow_none = False; m.allow_none = True"))
        ops.append(py("m.C.k = None", r, setup="m.C.k.allow_none = False; m.C.allow_none = True"))
        ops.append(py("m.A.z[1] = None", r, setup="m.A.allow_none = False; m.allow_none = True"))
        # a cells made from a function whose source cannot be retrieved: its definition cannot be renamed
        ops.append(py("m.A.sl.rename('sl2')", "no-source",
                      setup="ns = {}; exec('def sl(a):\\n    return a', ns); m.A.new_cells('sl', formula=ns['sl'])"))
        ops.append(py("m.C.k.formula = 5", "malformed-formula"))           # cells holding an input
        ops.append(py("m.A.z.formula = len", "malformed-formula"))
    # 8. removing what is not a base, deleting what does not exist
    for s in spaces:
        for t in spaces:
            if s != t and t not in rm.space(s).bases:
                ops.append(dict({"op": "remove_bases", "sp": s, "bases": [t]}, reason="not-a-base"))
        ops.append(py("del m.%s.nothing" % s, "missing"))
        ops.append(py("m.%s.cells['nothing']" % s, "missing"))
    ops.append(py("del m.Nothing", "missing"))
    return [o for o in ops if o is not None]


def full_description(m):
    d = {"model": describe_model(m, with_values=True, with_items=True), "view": impl_view(m),
         "registry": sorted(mxsys.models)}
    return d


def probe_values(m):
    out = {}
    for s in walk_spaces(m, dynamic=False):
        for n, c in s.cells.items():
            npar = safe(lambda: len(c.parameters))
            args = () if npar == 0 else (1,) * (npar if isinstance(npar, int) else 1)
            out[space_path(s) + "." + n] = observe(lambda: c(*args))
    return out


def wellformed(m):
    """Acyclic + CPython-C3 linearisable + valid names; returns list of problems."""
    probs = []
    rm = RefModel()
    names = []
    def collect(spaces):
        for n, s in spaces.items():
            names.append(n)
            for cn in s.cells:
                names.append(cn)
            collect(s.named_spaces)
    collect(m.spaces)
    for n in names + sorted(mxsys.models, key=str):
        if not (isinstance(n, str) and n.isidentifier() and not n.startswith("_")):
            probs.append("invalid name %r" % (n,))
    if probs:
        return probs
    def rec(prefix, spaces):
        for n, s in spaces.items():
            rm.new_space(prefix + n)
            rec(prefix + n + ".", s.named_spaces)
    rec("", m.spaces)
    def rec2(prefix, spaces):
        for n, s in spaces.items():
            rm.space(prefix + n).bases = [b.fullname.split(".", 1)[1] for b in s._direct_bases]
            rec2(prefix + n + ".", s.named_spaces)
    rec2("", m.spaces)
    g = nx.DiGraph()
    for p in rm.all_paths():
        g.add_node(p)
        for b in rm.space(p).bases:
            g.add_edge(b, p)
    if not nx.is_directed_acyclic_graph(g):
        probs.append("cyclic base relation")
    else:
        for p in rm.all_paths():
            try:
                rm.mro(p)
            except (NoLinearisation, KeyError) as e:
                probs.append("no C3 linearisation for %s" % p)
    return probs


def run_case(root, hist, bad_op):
    w = StructWorld(root)
    case = {"root": root, "history": hist, "op": bad_op}
    if root.get("extras"):
        for e in extras_ops():
            O.apply_impl(w.m, e)
    for op in hist:
        w.apply(op)
    m = w.m
    if bad_op.get("setup"):
        if O.apply_impl(m, {"op": "py", "code": bad_op["setup"]})[0] != "ok":
            return [], ("skip", "setup failed"), True
    d0 = full_description(m)
    v0 = probe_values(m)
    ob = O.apply_impl(m, bad_op)
    viols = []

    def bad(clause, observed, expected):
        viols.append({"clause": clause, "case": case, "observed": observed, "expected": expected})
    m_after = mxsys.models.get("M")
    if ob[0] == "exc":
        if m_after is None or m_after.interface is not m:
            bad("unchanged:" + bad_op["reason"], "model M no longer registered", "registered")
            return viols, ob, True
        d1 = full_description(m)
        if d1 != d0:
            diff = _diff(d0, d1)
            bad("unchanged:" + bad_op["reason"], {"error": ob[1], "after": diff[1]}, {"before": diff[0]})
        else:
            v1 = probe_values(m)
            if v1 != v0:
                k = [k for k in v0 if v1.get(k) != v0[k]][:1]
                bad("values:" + bad_op["reason"], {"error": ob[1], "after": {x: v1.get(x) for x in k}},
                    {"before": {x: v0[x] for x in k}})
        s1 = observe(lambda: mxsys._check_sanity())
        if s1[0] != "ok":
            bad("sane:" + bad_op["reason"], s1, "self-checks pass")
        return viols, ob, True
    probs = wellformed(m)
    if probs:
        bad("well-formed:" + bad_op["reason"], probs, "acyclic, linearisable, valid identifiers")
    return viols, ob, False


def _diff(a, b, path=""):
    if isinstance(a, dict) and isinstance(b, dict):
        for k in sorted(set(a) | set(b), key=str):
            if a.get(k) != b.get(k):
                return _diff(a.get(k), b.get(k), path + "/" + str(k))
    return ({"path": path, "value": a}, {"path": path, "value": b})


def roots(tier):
    out = []
    subsets = [list(c) for k in range(0, 4) for c in itertools.combinations(NAMES3, k)]
    ysets = [[], ["A"], ["B", "C"]] if tier == "quick" else subsets
    for bases in ordered_dags(NAMES3):
        for xs in subsets:
            for ys in ysets:
                out.append({"bases": bases, "x": xs, "y": ys, "extras": False})
        for xs in ([["A"], ["B", "C"]] if tier == "quick" else subsets):
            out.append({"bases": bases, "x": xs, "y": ["B"], "extras": True})
    return out


def work_items(tier, seed):
    return [{"root": r} for r in roots(tier)]


def run_item(item, tier):
    root = item["root"]
    w = StructWorld(root)
    hists = [[]]
    deep = tier == "thorough" or (not root["y"] and len(root["x"]) <= 1 and not root["extras"])
    if deep:
        for op in struct_ops(w.rm, NAMES3, with_new_space=False, with_cached=False):
            if valid_in_ref(w.rm, op):
                hists.append([op])
    counts = {"transitions": 0, "states": 0, "rejected": 0, "accepted": 0}
    outcomes = set()
    viols = []
    samples = []
    for hist in hists:
        w = StructWorld(root)
        ok = True
        for op in hist:
            if w.apply(op)[0] != "ok":
                ok = False
        if not ok:
            continue
        counts["states"] += 1
        full = tier == "thorough" or root["extras"] or (len(root["x"]) == 1 and len(root["y"]) <= 1)
        for bop in invalid_ops(w.rm, root["extras"], full):
            vs, ob, rej = run_case(root, hist, bop)
            counts["transitions"] += 1
            counts["rejected" if rej else "accepted"] += 1
            outcomes.add(digest([bop["reason"], ob, bool(vs)]))
            if vs and len(viols) < 30:
                viols.extend(vs[:1])
            if not samples and hist:
                samples.append({"root": root, "history": hist, "op": bop})
    return {"counts": counts, "outcomes": sorted(outcomes), "violations": viols, "samples": samples}


def check_case(case):
    return run_case(case["root"], case["history"], case["op"])[0]


def shrink_candidates(case):
    r, h = case["root"], case["history"]
    if h:
        yield dict(case, history=[])
    if r.get("extras"):
        yield dict(case, root=dict(r, extras=False))
    for key in ("x", "y"):
        for i in range(len(r[key])):
            yield dict(case, root=dict(r, **{key: r[key][:i] + r[key][i + 1:]}))
    for s, bs in r["bases"].items():
        for i in range(len(bs)):
            nb = dict(r["bases"])
            nb[s] = bs[:i] + bs[i + 1:]
            yield dict(case, root=dict(r, bases=nb))


def script(case):
    from mxmc.drivers import c03
    pre = c03.script({"root": case["root"], "history": []}).rsplit("\nfor s in", 1)[0]
    L = [pre]
    if case["root"].get("extras"):
        L += [e["code"] for e in extras_ops()]
    L += [O.op_to_python(o) for o in case["history"]]
    if case["op"].get("setup"):
        L.append(case["op"]["setup"])
    L.append("try:\n    " + O.op_to_python(case["op"]).replace("\n", "\n    ") + "\nexcept Exception as e:\n    print('rejected:', type(e).__name__, e)")
    L.append("for s in m.spaces.values():\n    print(s.name, [b.name for b in s.bases], "
             "{n: (c.formula.source, dict(c)) for n, c in s.cells.items()}, dict(s._own_refs), list(s.spaces))")
    return "\n".join(L)


def coverage(agg, tier):
    c = agg["counts"]
    return {"states": c.get("states", 0), "transitions": c.get("transitions", 0),
            "traces_validated_against_impl": c.get("transitions", 0),
            "invalid_ops_rejected": c.get("rejected", 0), "ops_accepted_and_checked_wellformed": c.get("accepted", 0),
            "roots": agg["items"], "exhaustive": True}


def vacuity(agg, tier):
    c = agg["counts"]
    if c.get("rejected", 0) < 5000:
        return "too few rejected operations: %s" % c
