"""C03 Derived members equal re-derivation from defined members along the C3 order.

Roots: ALL ordered-base DAGs with a C3 linearisation on 3 top-level spaces x all placements of one cells
name x and one reference name y.  BFS over member / base edits.  Oracle after every accepted op, for
every space: bases == CPython's C3 (type().__mro__), members == reference derivation, derived copies
carry the first definer's formula / value, derived flags, evaluation with names resolved in the sub,
and the whole description == a model built from scratch out of the reference definitions.
"""
import itertools
import json

from mxmc import bfs, ops as O
from mxmc.structfam import (ordered_dags, NAMES3, NAMES4, StructWorld, impl_view, ref_view, struct_ops,
                            construct, valid_in_ref, build_rm)
from mxmc.refsem import Evaluator, NoLinearisation
from mxmc.session import digest, observe, render, reset_world, session_canon

PROPERTY = "C03"
LEVEL = "model_checking"
ASSUMPTIONS = [
    "linearisation oracle: CPython's own C3 (type(name, bases, {}).__mro__)",
    "derivation oracle: first definer in that order (mxmc/refsem.py); order of members inside a space not compared",
    "ops the reference model deems ill-formed (cycle / no linearisation) are not generated here (C11 covers rejections)",
]


def judge(w, case, after_scratch=True):
    viols = []

    def bad(clause, observed, expected):
        viols.append({"clause": clause, "case": case, "observed": observed, "expected": expected})
    iv = impl_view(w.m)
    try:
        rv = ref_view(w.rm)
    except NoLinearisation:
        return viols, None
    if set(iv) != set(rv):
        bad("spaces", sorted(iv), sorted(rv))
        return viols, iv
    for p in sorted(rv):
        i, r = iv[p], rv[p]
        if i["bases"] != r["bases"]:
            bad("bases", {"space": p, "bases": i["bases"]}, {"c3": r["bases"]})
            continue
        if isinstance(i["cells"], str) or isinstance(i["refs"], str):
            bad("broken", {"space": p, "cells": i["cells"] if isinstance(i["cells"], str) else "ok",
                           "refs": i["refs"] if isinstance(i["refs"], str) else "ok"}, "readable containers")
            continue
        if set(i["cells"]) != set(r["cells"]) or set(i["refs"]) != set(r["refs"]):
            bad("members", {"space": p, "cells": sorted(i["cells"]), "refs": sorted(i["refs"])},
                {"cells": sorted(r["cells"]), "refs": sorted(r["refs"])})
            continue
        for n in r["cells"]:
            if i["cells"][n][0] != r["cells"][n][0]:
                bad("origin-cells", {"space": p, "cells": n, "source": i["cells"][n][0]}, r["cells"][n][0])
            elif i["cells"][n][1] != r["cells"][n][1]:
                bad("flags-cells", {"space": p, "cells": n, "derived": i["cells"][n][1]}, r["cells"][n][1])
            elif i["cells"][n][2] != r["cells"][n][2]:
                bad("origin-cached", {"space": p, "cells": n, "cached": i["cells"][n][2]}, r["cells"][n][2])
        for n in r["refs"]:
            if i["refs"][n][0] != r["refs"][n][0]:
                bad("origin-ref", {"space": p, "ref": n, "value": i["refs"][n][0]}, r["refs"][n][0])
            elif i["refs"][n][1] != r["refs"][n][1]:
                bad("flags-ref", {"space": p, "ref": n, "derived": i["refs"][n][1]}, r["refs"][n][1])
    if viols:
        return viols, iv
    # evaluation: names resolved in the sub space
    ev = Evaluator(w.rm)
    for p in sorted(rv):
        for n in rv[p]["cells"]:
            got = observe(lambda: O.resolve(w.m, p).cells[n]())
            r = ev.eval(p, n, ())
            exp = ("ok", render(r[1])) if r[0] == "ok" else ("exc", "FormulaError:" + type(r[1]).__name__)
            if got != exp:
                bad("eval", {"space": p, "cells": n, "got": got}, {"reference": exp})
    return viols, iv


_scratch_memo = {}


def scratch_view(rm):
    key = repr([(p, rm.space(p).bases, sorted((n, c.src, c.cached) for n, c in rm.space(p).cells.items()),
                 sorted((n, repr(v)) for n, v in rm.space(p).refs.items())) for p in rm.all_paths()])
    if key not in _scratch_memo:
        if len(_scratch_memo) > 20000:
            _scratch_memo.clear()
        reset_world()
        m2 = construct(rm, "M")
        _scratch_memo[key] = impl_view(m2)
    return _scratch_memo[key]


def eval_all(w):
    """Evaluate every cells of every space (results ignored): bound functions and namespaces get built."""
    for sp in list(w.m.spaces.values()):
        for c in list(sp.cells.values()):
            observe(lambda: c())


def run_history(root, hist, depth_ops=None):
    case = {"root": root, "history": hist}
    try:
        w = StructWorld(root)
    except Exception as e:
        # the canonical construction of a well-formed root (spaces, members, then add_bases in topological order)
        # is itself a sequence of valid edits
        return ({"construct": "failed"},
                [{"clause": "construct", "case": case, "observed": "%s: %s" % (type(e).__name__, str(e)[:200]),
                  "expected": "a linearisable root can be built"}], "construct-failed", {"rm": None, "rejected": True})
    obs = []
    warm = bool(root.get("warm"))
    if warm:
        eval_all(w)         # every cells evaluated before the edits and between them
    for i, op in enumerate(hist):
        obs.append(w.apply(op))
        if warm and i < len(hist) - 1:
            eval_all(w)
    info = {"rm": w.rm, "rejected": obs and obs[-1][0] != "ok"}
    # a rejected operation was not applied to the reference definitions either: "at every moment" the spaces
    # hold what derivation from the (unchanged) definitions gives; whether it should have been accepted is not
    # judged here
    viols, iv = judge(w, case)
    canon = session_canon(with_graph=False)
    if not viols:
        import copy
        rm_copy = copy.deepcopy(w.rm)
        try:
            sv = scratch_view(rm_copy)
        except Exception as e:
            sv = None
            viols.append({"clause": "construct", "case": case,
                          "observed": "building the reference definitions from scratch raised %s: %s"
                                      % (type(e).__name__, str(e)[:200]),
                          "expected": "well-formed definitions can be built"})
        if sv is not None and sv != iv:
            diff = sorted(p for p in set(sv) | set(iv) if sv.get(p) != (iv or {}).get(p))
            viols.append({"clause": "scratch", "case": case,
                          "observed": {p: (iv or {}).get(p) for p in diff[:2]},
                          "expected": {p: sv.get(p) for p in diff[:2]}})
    return canon, viols, digest([obs, json.dumps(iv, sort_keys=True, default=repr)]), info


def enabled(hist, info):
    rm = info["rm"]
    if info.get("rejected"):
        return []
    return [op for op in struct_ops(rm, NAMES3) if valid_in_ref(rm, op)]


def enabled_refs(hist, info):
    """Restricted alphabet for the deeper exploration of reference roots: reference and base edits, new space
    with at most one base."""
    rm = info["rm"]
    if info.get("rejected"):
        return []
    out = []
    for op in struct_ops(rm, NAMES3, with_cached=False):
        k = op["op"]
        if k in ("set_ref", "del_ref", "add_bases", "remove_bases") or (k == "new_space" and len(op["bases"]) <= 1):
            if valid_in_ref(rm, op):
                out.append(op)
    return out


def enabled_wide(hist, info):
    """Alphabet for the wide roots (S with three ordered bases): remove / add one or two bases of S at once,
    member edits in the bases."""
    rm = info["rm"]
    if info.get("rejected"):
        return []
    out = []
    cur = rm.space("S").bases
    others = [b for b in ("A", "B", "C") if b not in cur]
    for b in cur:
        out.append({"op": "remove_bases", "sp": "S", "bases": [b]})
    for pair in itertools.combinations(cur, 2):
        out.append({"op": "remove_bases", "sp": "S", "bases": list(pair)})
    for b in others:
        out.append({"op": "add_bases", "sp": "S", "bases": [b]})
    for pair in itertools.permutations(others, 2):
        out.append({"op": "add_bases", "sp": "S", "bases": list(pair)})
    for b in ("A", "B", "C"):
        if "x" in rm.space(b).cells:
            out.append({"op": "del_cells", "sp": b, "c": "x"})
        else:
            out.append({"op": "new_cells", "sp": b, "c": "x", "src": __import__("mxmc.structfam", fromlist=["xsrc"]).xsrc(b), "cached": True})
        if "y" in rm.space(b).refs:
            out.append({"op": "set_ref", "sp": b, "n": "y", "v": b + "2"})
    return [op for op in out if valid_in_ref(rm, op)]


def roots(tier):
    out = []
    dags = ordered_dags(NAMES3)
    subsets = [list(c) for k in range(0, 4) for c in itertools.combinations(NAMES3, k)]
    ysets = subsets if tier == "thorough" else [[], ["A"], ["B", "C"], ["A", "B", "C"]]
    for bases in dags:
        for xs in subsets:
            for ys in ysets:
                out.append({"bases": bases, "x": xs, "y": ys})
    # warm variants (all cells evaluated before and between the edits): roots in which a name is defined in
    # two or more spaces, so that a derived member can change its origin
    for bases in dags:
        for xs in subsets:
            if len(xs) >= 2:
                # y is defined everywhere so that every derived x evaluates to a value naming its origin
                out.append({"bases": bases, "x": xs, "y": list(NAMES3), "warm": True})
    # deeper exploration of reference roots with a restricted alphabet (reference / base edits)
    for bases in dags:
        for ys in subsets:
            if ys:
                out.append({"bases": bases, "x": [], "y": ys, "mode": "refs"})
    # wide roots: a space with three ordered direct bases
    for perm in itertools.permutations(NAMES3):
        for members in (NAMES3, ["A", "C"]):
            out.append({"bases": {"A": [], "B": [], "C": [], "S": list(perm)}, "x": list(members),
                        "y": list(members), "mode": "wide"})
    # five spaces: DAGs with paths of unequal length between a space and a descendant (the order in which the
    # sub spaces are re-derived matters); x defined at the top / in two spaces
    from mxmc.structfam import layered_dags5
    for bases in layered_dags5(True):
        out.append({"bases": bases, "x": ["N"], "y": [], "mode": "five"})
        if tier == "thorough":
            out.append({"bases": bases, "x": ["X"], "y": ["N"], "mode": "five"})
            out.append({"bases": bases, "x": ["N", "P"], "y": [], "mode": "five"})
    return out


def enabled_five(hist, info):
    rm = info["rm"]
    if info.get("rejected"):
        return []
    return [op for op in struct_ops(rm, None, with_new_space=False, with_cached=False) if valid_in_ref(rm, op)]


def depth_for(root, tier):
    if root.get("mode") == "five":
        return 1 if tier == "quick" or len(root["x"]) > 1 or root["y"] else 2
    if root.get("mode") == "refs":
        return 2 if tier == "quick" else 3
    if root.get("mode") == "wide":
        return 3 if tier == "quick" else 4
    cells_only = not root["y"]
    if root.get("warm"):
        return 1 if tier == "quick" else 2
    if tier == "quick":
        return 2 if cells_only and len(root["x"]) <= 1 else 1
    return 3 if cells_only else 2


def work_items(tier, seed):
    return [{"root": r} for r in roots(tier)]


def run_item(item, tier):
    root = item["root"]
    en = {"refs": enabled_refs, "wide": enabled_wide, "five": enabled_five}.get(root.get("mode"), enabled)
    res = bfs.explore(lambda h: run_history(root, h), en, depth_for(root, tier))
    res.samples = [{"root": root, "history": h} for h in res.samples[:1]]
    return res.as_item_result()


def check_case(case):
    return run_history(case["root"], case["history"])[1]


def shrink_candidates(case):
    h, r = case["history"], case["root"]
    for i in range(len(h)):
        yield {"root": r, "history": h[:i] + h[i + 1:]}
    for key in ("x", "y"):
        for i in range(len(r[key])):
            yield {"root": dict(r, **{key: r[key][:i] + r[key][i + 1:]}), "history": h}
    for s, bs in r["bases"].items():
        for i in range(len(bs)):
            nb = dict(r["bases"])
            nb[s] = bs[:i] + bs[i + 1:]
            yield {"root": dict(r, bases=nb), "history": h}
    if r.get("warm"):
        yield {"root": {k: v for k, v in r.items() if k != "warm"}, "history": h}


def script(case):
    r = case["root"]
    from mxmc.structfam import xsrc, topo
    L = ["import modelx as mx", "m = mx.new_model('M')"]
    for s in r["bases"]:
        L.append("m.new_space(%r)" % s)
    for s in r["x"]:
        L.append("m.%s.new_cells('x', formula=%r)" % (s, xsrc(s)))
    for s in r["y"]:
        L.append("m.%s.y = %r" % (s, s))
    for s in topo(r["bases"]):
        if r["bases"][s]:
            L.append("m.%s.add_bases(%s)" % (s, ", ".join("m." + b for b in r["bases"][s])))
    ev = "[c() for s in m.spaces.values() for c in s.cells.values()]   # evaluate everything (errors ignored)"
    ev = "for s in list(m.spaces.values()):\n    for c in list(s.cells.values()):\n        try: c()\n        except Exception: pass"
    if r.get("warm"):
        L.append(ev)
    for i, op in enumerate(case["history"]):
        L.append(O.op_to_python(op))
        if r.get("warm") and i < len(case["history"]) - 1:
            L.append(ev)
    L.append("for s in m.spaces.values():\n    print(s.name, [b.name for b in s.bases], "
             "{n: (c.formula.source, c._is_derived()) for n, c in s.cells.items()}, dict(s._own_refs))")
    return "\n".join(L)


def coverage(agg, tier):
    c = agg["counts"]
    return {"states": c.get("states", 0), "transitions": c.get("transitions", 0),
            "traces_validated_against_impl": c.get("transitions", 0), "merged": c.get("merged", 0),
            "roots": agg["items"], "dags": len(ordered_dags(NAMES3)), "exhaustive": True,
            "depth": "quick: 1 on every root, 2 on roots with <=1 cells placement and no reference; "
                     "thorough: 2 / 3"}


def vacuity(agg, tier):
    if agg["counts"].get("transitions", 0) < 10000:
        return "too few transitions"
