"""C05 A failed evaluation leaves a consistent, retryable state.

Shapes (all DAGs on n elements as def formulas, uncached subsets, recursion, a catching formula,
lambdas/comprehensions, ItemSpace) x every element as failure point x exception kinds x BFS over
arm / disarm / query histories.  Oracle: reference evaluation with the same armed faults and the same
held elements; executor flags; graph == cache.  Plus recursion-limit scans.
"""
import json
import subprocess
import sys

import modelx as mx
from modelx.core.errors import FormulaError, NoneReturnedError, DeepReferenceError
from mxmc import bfs, ops as O
from mxmc.faultfam import (FaultWorld, KINDS, shape_elems, arm_points, shape_spec, RefTicker, shape_edits)
from mxmc.evalfam import RefTrees, held_elems
from mxmc.refsem import tree_elems
from mxmc.session import (TICK, render, digest, raw_observe, executor_quiescent, QUIESCENT, session_canon,
                          reset_world, InjectedBase)
from mxmc.drivers.c16 import all_dags
from mxmc.drivers.c08 import graph_checks

PROPERTY = "C05"
LEVEL = "fault_enumeration"
ASSUMPTIONS = [
    "faults are injected through tick(), the first statement of every generated formula; kinds: ValueError, custom "
    "Exception, ZeroDivisionError, custom BaseException, formula returning None, recursion limit",
    "reference evaluation (mxmc/refsem.py) treats elements already held as leaves, as C01 establishes",
    "recursion-limit boundary lengths (limit, limit+1) are accepted either way",
]
DEPTH = {"quick": 4, "thorough": 5}
FAULTS = {"quick": 1, "thorough": 2}


def completed_cached(roots):
    out = set()

    def rec(n):
        if n.cached and not n.failed:
            out.add(n.elem)
        for ch in n.children:
            rec(ch)
    for r in roots:
        rec(r)
    return out


def failed_elems(roots):
    out = set()

    def rec(n):
        if n.failed:
            out.add(n.elem)
        for ch in n.children:
            rec(ch)
    for r in roots:
        rec(r)
    return out


def needed_depth(shape, op):
    if shape["kind"] == "deep":
        return op["args"][0] + 1
    return None


def run_history(shape, hist):
    w = FaultWorld(shape)
    viols = []
    obs = []
    case = {"shape": shape, "history": hist}
    fired = 0

    def bad(clause, observed, expected):
        viols.append({"clause": clause, "case": case, "observed": observed, "expected": expected})

    for idx, op in enumerate(hist):
        last = idx == len(hist) - 1
        if op["op"] == "arm":
            TICK.armed[tuple(op["elem"])] = op["kind"]
            obs.append("arm")
            continue
        if op["op"] == "disarm":
            TICK.armed.pop(tuple(op["elem"]), None)
            obs.append("disarm")
            continue
        if op["op"] == "set_allow_none":
            r = raw_observe(lambda: O._apply_impl(w.m, op))
            obs.append(("ok", None) if r[0] == "ok" else ("exc", type(r[1]).__name__))
            if r[0] == "ok":
                O.apply_ref(w.rm, op)
            else:
                bad("edit-raises", {"op": op, "error": type(r[1]).__name__}, "accepted")
                break
            continue
        before = w.held_map() if last else None
        TICK.take_log()
        nf0 = len(TICK.fired)
        r = raw_observe(lambda: O._apply_impl(w.m, op))
        log = TICK.take_log()
        newfired = TICK.fired[nf0:]
        obs.append(("ok", render(r[1])) if r[0] == "ok" else ("exc", type(r[1]).__name__))
        if not last:
            continue
        # ---- judge the last query -------------------------------------------------------------
        memo = dict(before)
        (rr, rt, ev) = w.ref_eval(op["sp"], op["c"], tuple(op.get("args", [])), memo)
        tree = rr[2]
        if rr[0] == "ok":
            if r[0] != "ok" or render(r[1]) != render(rr[1]):
                bad("value", {"query": op, "got": obs[-1]}, {"reference": render(rr[1])})
                break
        else:
            fired = 1
            e = rr[1]
            if r[0] != "exc" or not isinstance(r[1], FormulaError):
                bad("wrapped", {"query": op, "got": obs[-1] if r[0] == "exc" else ["ok", render(r[1])]},
                    {"FormulaError_carrying": type(e).__name__})
                break
            orig = mx.get_error()
            if type(orig) is not type(e):
                bad("wrapped-original", {"get_error": type(orig).__name__}, type(e).__name__)
                break
            injected = [f for f in newfired if f[2] is not None]
            if injected and not isinstance(e, (NoneReturnedError, DeepReferenceError, TypeError)):
                if orig is not injected[-1][2]:
                    bad("wrapped-original", "get_error() is not the injected exception object", "identity")
                    break
            ipts = [list(f[0]) for f in newfired]
            rpts = [list(f[0]) for f in rt.fired]
            if ipts != rpts:
                bad("fault-point", {"impl_fired_at": ipts}, {"reference_fired_at": rpts})
                break
        q = executor_quiescent()
        if q != QUIESCENT:
            bad("not-executing", q, QUIESCENT)
            break
        after = w.held_map()
        exp_after = set(before) | completed_cached(tree)
        chain = failed_elems(tree)
        onchain = sorted(map(list, set(after) & chain))
        if onchain:
            bad("chain-empty", {"query": op, "held_on_failing_chain": onchain}, [])
            break
        if set(after) != exp_after:
            bad("completed-kept", {"query": op, "held": sorted(map(list, after)),
                                   "before": sorted(map(list, before))},
                {"held": sorted(map(list, exp_after))})
            break
        restarted = [x for x in log if x in before]
        if restarted:
            bad("held-rerun", {"query": op, "restarted": restarted}, "held elements are not run again")
            break
        # values: elements held before keep their value; elements completed by this query hold the value
        # the reference computed for them in this (possibly faulted) evaluation
        refvals = {}

        def collect(n):
            if n.cached and not n.failed and not n.is_input:
                refvals[n.elem] = render(n.value)
            for ch in n.children:
                collect(ch)
        for rn in tree:
            collect(rn)
        for el, val in after.items():
            if val == "<itemspace>":
                continue
            exp = before[el] if el in before else refvals.get(el, "<none>")
            if val != exp:
                bad("completed-kept-value", {"elem": list(el), "value": val}, {"expected": exp})
                break
        if viols:
            break
        graph_checks(w, lambda c, o, e: bad("graph:" + c, o, e))
    canon = session_canon(extra={"armed": sorted([list(k), v] for k, v in TICK.armed.items())})
    return canon, viols, digest(obs), {"fired": fired}


def alphabet(shape, tier):
    ops = []
    for inst, c, key in shape_elems(shape):
        ops.append({"op": "q", "sp": inst, "c": c, "args": list(key)})
    kinds = shape.get("kinds") or KINDS
    for pt in arm_points(shape):
        for k in kinds:
            ops.append({"op": "arm", "elem": list(pt), "kind": k})
        ops.append({"op": "disarm", "elem": list(pt)})
    return ops + shape_edits(shape)


def shapes(tier):
    out = []
    nmax = 3 if tier == "quick" else 4
    for n in range(1, nmax + 1):
        for edges in all_dags(n):
            if n == 4 and len(edges) < 3:
                continue
            out.append({"kind": "dag", "n": n, "edges": edges, "uncached": []})
            if edges and n <= 3:
                for u in range(n):
                    out.append({"kind": "dag", "n": n, "edges": edges, "uncached": [u]})
    out.append({"kind": "rec"})
    out.append({"kind": "rec", "uncached": True})
    out.append({"kind": "catcher"})
    out.append({"kind": "lambda", "kinds": ["ValueError", "Base"]})
    out.append({"kind": "item", "kinds": ["ValueError", "Custom", "Base", "None"]})
    out.append({"kind": "allow", "kinds": ["None"]})
    return out


def work_items(tier, seed):
    items = []
    for s in shapes(tier):
        if s["kind"] == "dag" and s["n"] <= 2:
            items.append({"shape": s})
        else:
            # split big shapes by the armed fault (first op) so that workers share the load
            for pt in arm_points(s):
                items.append({"shape": s, "first": {"op": "arm", "elem": list(pt), "kind": None}})
            items.append({"shape": s, "first": None, "noarm": True})
    for lim in (2, 3):
        items.append({"special": "deep", "limit": lim})
    items.append({"special": "depthscan", "limits": list(range(1, 41 if tier == "quick" else 67))})
    for lim in ([1000, 10000] if tier == "quick" else [1000, 10000, 100000]):
        items.append({"special": "bigdepth", "limit": lim})
    return items


def make_enabled(shape, tier, restrict_pt=None, noarm=False):
    alpha = alphabet(shape, tier)
    maxf = FAULTS[tier]

    def enabled(hist, info):
        narm = sum(1 for o in hist if o["op"] == "arm")
        armed = {}
        for o in hist:
            if o["op"] == "arm":
                armed[tuple(o["elem"])] = o["kind"]
            elif o["op"] == "disarm":
                armed.pop(tuple(o["elem"]), None)
        out = []
        for o in alpha:
            if o["op"] == "arm":
                if noarm or narm >= maxf or tuple(o["elem"]) in armed:
                    continue
                if restrict_pt is not None and narm == 0 and o["elem"] != restrict_pt:
                    continue
            if o["op"] == "disarm" and tuple(o["elem"]) not in armed:
                continue
            out.append(o)
        return out
    return enabled


def run_item(item, tier):
    if item.get("special") == "deep":
        return deep_item(item, tier)
    if item.get("special") == "depthscan":
        return depthscan_item(item)
    if item.get("special") == "bigdepth":
        return bigdepth_item(item)
    shape = item["shape"]
    nf = [0]

    def rh(h):
        c, v, d, info = run_history(shape, h)
        nf[0] += info["fired"]
        return c, v, d, info
    restrict = item["first"]["elem"] if item.get("first") else None
    depth = DEPTH[tier]
    if shape["kind"] == "allow" and tier == "thorough":
        depth -= 1          # the largest alphabet (queries, faults and allow_none edits)
    res = bfs.explore(rh, make_enabled(shape, tier, restrict, item.get("noarm", False)), depth)
    res.samples = [{"shape": shape, "history": h} for h in res.samples[:1]]
    out = res.as_item_result()
    out["counts"]["failed_queries"] = nf[0]
    return out


# ---- recursion limit ---------------------------------------------------------------------------

DEEP_SRC = "def v(i):\n    t = tick()\n    if i > 0:\n        return v(i - 1) + 1\n    return 1\n"


def deep_world(limit):
    reset_world()
    m = mx.new_model("M")
    m.tick = TICK
    s = m.new_space("S")
    s.new_cells("v", formula=DEEP_SRC)
    mx.set_recursion(limit)
    return m, s


def judge_depth(limit, k, case):
    """Query v(k) (needs k+1 frames) under recursion limit `limit`, fresh world."""
    viols = []
    m, s = deep_world(limit)
    need = k + 1
    r = raw_observe(lambda: s.v(k))
    state_ok = executor_quiescent() == QUIESCENT
    held = sorted(kk[0] for kk in s.v._impl.data)
    if need < limit:
        if r[0] != "ok" or r[1] != k + 1:
            viols.append({"clause": "depth-evaluates", "case": case,
                          "observed": ("exc " + type(r[1]).__name__) if r[0] == "exc" else render(r[1]),
                          "expected": k + 1})
    elif need > limit + 1:
        if r[0] != "exc" or not isinstance(r[1], FormulaError) or not isinstance(mx.get_error(), DeepReferenceError):
            viols.append({"clause": "depth-raises", "case": case,
                          "observed": render(r[1]) if r[0] == "ok" else type(r[1]).__name__,
                          "expected": "FormulaError carrying DeepReferenceError"})
    if r[0] == "exc":
        # consistent state: nothing on the failing chain holds a value, executor idle, graph == cache
        if held:
            viols.append({"clause": "depth-chain-empty", "case": case, "observed": held, "expected": []})
    else:
        if held != list(range(k + 1)):
            viols.append({"clause": "depth-held", "case": case, "observed": held, "expected": list(range(k + 1))})
    if not state_ok:
        viols.append({"clause": "not-executing", "case": case, "observed": executor_quiescent(), "expected": QUIESCENT})
    nodes = sorted(n[1][0] for n in m._impl.tracegraph.nodes if len(n) > 1)
    if nodes != held:
        viols.append({"clause": "graph:nodes==held", "case": case, "observed": nodes, "expected": held})
    # retry after raising the limit: values as if the failure had not happened
    mx.set_recursion(1000)
    r2 = raw_observe(lambda: s.v(k))
    if r2[0] != "ok" or r2[1] != k + 1:
        viols.append({"clause": "depth-retry", "case": case,
                      "observed": render(r2[1]) if r2[0] == "ok" else type(r2[1]).__name__, "expected": k + 1})
    return viols, (r[0], need < limit, need > limit + 1)


def depthscan_item(item):
    viols, n, outs = [], 0, set()
    for lim in item["limits"]:
        for k in range(0, lim + 3):
            case = {"special": "depth", "limit": lim, "k": k}
            vs, oc = judge_depth(lim, k, case)
            n += 1
            outs.add(json.dumps(oc))
            viols.extend(vs[:1])
    reset_world()
    return {"counts": {"transitions": n, "states": n, "failed_queries": sum(1 for o in outs if "exc" in o)},
            "outcomes": sorted(outs), "violations": viols[:10],
            "samples": [{"special": "depth", "limit": item["limits"][-1], "k": item["limits"][-1] + 2}]}


def deep_item(item, tier):
    """BFS over query orders of v(0..5) under a small limit, with faults, judged by the reference."""
    return deep_bfs(item["limit"], tier)


def deep_bfs(lim, tier):
    shape = {"kind": "rec", "maxdepth": lim, "kinds": ["ValueError"]}
    nf = [0]

    def rh(h):
        c, v, d, info = run_history(shape, h)
        nf[0] += info["fired"]
        return c, v, d, info

    base = make_enabled(shape, tier)

    def enabled(hist, info):
        out = []
        for o in base(hist, info):
            if o["op"] == "q":
                need = (o["args"][0] + 1) if o["c"] == "v" else 4
                if need in (lim, lim + 1):
                    continue        # boundary lengths are not judged
            out.append(o)
        return out
    res = bfs.explore(rh, enabled, 3)
    res.samples = [{"shape": shape, "history": h} for h in res.samples[:1]]
    out = res.as_item_result()
    out["counts"]["failed_queries"] = nf[0]
    return out


BIG_SCRIPT = r'''
import sys, warnings
import os
sys.path.insert(0, os.environ.get("MXMC_REPO") or "/repo")
warnings.filterwarnings("ignore")
import modelx as mx
from modelx.core.errors import DeepReferenceError, FormulaError
warnings.showwarning = lambda *a, **k: None
lim = int(sys.argv[1])
m = mx.new_model(); s = m.new_space("S")
s.new_cells("v", formula="lambda i: v(i - 1) + 1 if i > 0 else 1")
mx.set_recursion(lim)
k = lim - 3                      # needs lim-2 frames: shorter than the limit
assert s.v(k) == k + 1, "short chain wrong value"
s.v.clear_all()
try:
    s.v(lim + 3)                 # needs lim+4 frames: beyond the limit
    print("NORAISE"); sys.exit(3)
except FormulaError:
    if not isinstance(mx.get_error(), DeepReferenceError):
        print("WRONGERR", type(mx.get_error()).__name__); sys.exit(4)
if len(s.v) != 0 or mx.core.mxsys.executor.is_executing or len(mx.core.mxsys.callstack):
    print("STATE", len(s.v)); sys.exit(5)
assert s.v(5) == 6
print("OK")
'''


def bigdepth_item(item):
    lim = item["limit"]
    case = {"special": "bigdepth", "limit": lim}
    p = subprocess.run([sys.executable, "-c", BIG_SCRIPT, str(lim)], stdout=subprocess.PIPE,
                       stderr=subprocess.PIPE, timeout=600)
    viols = []
    out = p.stdout.decode().strip().splitlines()[-1:] or [""]
    if p.returncode != 0 or out[0] != "OK":
        viols.append({"clause": "depth-big", "case": case,
                      "observed": {"rc": p.returncode, "out": out[0], "err": p.stderr.decode()[-300:]},
                      "expected": "chain of limit-2 evaluates, chain of limit+4 raises DeepReferenceError, clean state"})
    return {"counts": {"transitions": 3, "states": 1, "failed_queries": 1}, "outcomes": ["big%d:%d" % (lim, p.returncode)],
            "violations": viols, "samples": []}


def check_case(case):
    if case.get("special") == "depth":
        return judge_depth(case["limit"], case["k"], case)[0]
    if case.get("special") == "bigdepth":
        return bigdepth_item(case)["violations"]
    return run_history(case["shape"], case["history"])[1]


def shrink_candidates(case):
    if case.get("special"):
        return
    h = case["history"]
    for i in range(len(h) - 1):
        yield {"shape": case["shape"], "history": h[:i] + h[i + 1:]}
    s = case["shape"]
    if s["kind"] == "dag":
        for kk in range(len(s["edges"])):
            yield {"shape": dict(s, edges=s["edges"][:kk] + s["edges"][kk + 1:]), "history": h}
        if s.get("uncached"):
            yield {"shape": dict(s, uncached=[]), "history": h}


def script(case):
    if case.get("special") == "depth":
        return ("import modelx as mx\nm = mx.new_model(); s = m.new_space('S')\n"
                "s.new_cells('v', formula=%r)\nm.tick = lambda: 0\nmx.set_recursion(%d)\nprint(s.v(%d))"
                % (DEEP_SRC, case["limit"], case["k"]))
    if case.get("special"):
        return BIG_SCRIPT
    spec = shape_spec(case["shape"])
    L = [O.spec_to_python(spec),
         "armed = {}",
         "def tick():",
         "    from modelx.core.system import mxsys",
         "    n = mxsys.callstack[-1]; key = (n[0].get_repr(fullname=True, add_params=False).split('.',1)[1], n[1])",
         "    k = armed.get(key)",
         "    if k == 'None': return 1",
         "    if k: raise {'ValueError': ValueError, 'ZeroDiv': ZeroDivisionError, 'Custom': RuntimeError, 'Base': GeneratorExit}[k]('injected')",
         "    return 0",
         "m.tick = tick"]
    if case["shape"].get("maxdepth"):
        L.append("mx.set_recursion(%d)" % case["shape"]["maxdepth"])
    for op in case["history"]:
        if op["op"] == "arm":
            L.append("armed[(%r, %r)] = %r" % (op["elem"][0], tuple(json.loads(op["elem"][1])[1:]), op["kind"]))
        elif op["op"] == "disarm":
            L.append("armed.pop((%r, %r), None)" % (op["elem"][0], tuple(json.loads(op["elem"][1])[1:])))
        else:
            L.append("try:\n    " + O.op_to_python(op) + "\nexcept BaseException as e:\n    print(type(e).__name__, type(mx.get_error()).__name__)")
    L.append("print({n: dict(c) for sp in m.spaces.values() for n, c in sp.cells.items()})")
    return "\n".join(L)


def coverage(agg, tier):
    c = agg["counts"]
    return {"evaluations": c.get("transitions", 0), "distinct_nontrivial": len(agg["outcomes"]),
            "rule": "BFS over arm/disarm/query histories (depth %d, <= %d armed faults per history) on every shape, "
                    "every element as failure point; distinct_nontrivial = distinct observation sequences; queries "
                    "that actually failed: %d; recursion-limit scan limits 1..%d x lengths 0..limit+2 plus big limits "
                    "in subprocesses" % (DEPTH[tier], FAULTS[tier], c.get("failed_queries", 0), 40 if tier == "quick" else 66),
            "states": c.get("states", 0), "failed_queries": c.get("failed_queries", 0), "exhaustive": True}


def vacuity(agg, tier):
    if agg["counts"].get("failed_queries", 0) < 500:
        return "too few failing queries: %s" % agg["counts"]
