"""C09 The cached flag never changes any result.

For every root model of the edit/eval family and every assignment of the cached flag to its cells
(all 2^n in thorough; all assignments with <= 2 uncached cells in quick), BFS over edit/evaluation
histories (flag changes at any point included).  Oracle: the observation sequence (values / original
exception types of every evaluation and of the final probe-all) equals that of the all-cached twin
running the same history without the flag operations.  Plus: uncached cells hold nothing, are
re-executed on every call, accept unhashable arguments.
"""
import copy
import itertools
import json

import modelx as mx
from mxmc import bfs, ops as O
from mxmc.evalfam import ROOTS, canon_world
from mxmc.session import reset_world, TICK, digest, observe, render, walk_spaces, space_path

PROPERTY = "C09"
LEVEL = "model_checking"
ASSUMPTIONS = [
    "differential oracle against the all-cached twin (same implementation); the twin's absolute correctness is "
    "C01/C02's business",
    "histories in which a value is assigned to a cells that is uncached at some point are not compared (assigning "
    "to an uncached cells is rejected / switching to uncached drops inputs: a documented difference)",
]
DEPTH = {"quick": 2, "thorough": 3}
_twin_memo = {}


def cells_of_spec(spec):
    out = []
    def rec(prefix, d):
        for n, sd in d.items():
            for cn in sd.get("cells", {}):
                out.append((prefix + n, cn))
            rec(prefix + n + ".", sd.get("spaces", {}))
    rec("", spec["spaces"])
    return out


def flagged_spec(rootname, unc):
    spec = copy.deepcopy(ROOTS[rootname]["spec"])

    def all_cached(d):
        for sd in d.values():
            for cn, cd in list(sd.get("cells", {}).items()):
                if isinstance(cd, dict) and cd.get("cached") is False:
                    cd["cached"] = True
            all_cached(sd.get("spaces", {}))
    all_cached(spec["spaces"])      # the flag assignment under test is given by `unc` alone
    for path, cn in unc:
        sd = spec["spaces"]
        parts = path.split(".")
        cur = sd[parts[0]]
        for p in parts[1:]:
            cur = cur["spaces"][p]
        cd = cur["cells"][cn]
        if isinstance(cd, str):
            cd = {"src": cd}
        cd["cached"] = False
        cur["cells"][cn] = cd
    return spec


def run(rootname, unc, hist, twin, warm=False):
    """Run hist on the model with cells in `unc` uncached (twin: all cached, flag ops dropped)."""
    reset_world()
    m, _ = O.build_from_spec(flagged_spec(rootname, [] if twin else unc))
    obs, edit_obs = [], []
    viols = []
    if warm:        # start from the state in which every probe has been evaluated under this assignment
        for p in ROOTS[rootname]["probes"]:
            obs.append(O.apply_impl(m, p))
    for op in hist:
        if op["op"] == "set_cached":
            if twin:
                continue
        TICK.take_log()
        ob = O.apply_impl(m, op)
        log = TICK.take_log()
        if O.is_edit(op):
            edit_obs.append(ob[0])
        else:
            obs.append(ob)
            if not twin:
                viols.extend(uncached_checks(m, op, ob, log))
    if not twin:
        canon = canon_world(None)
    else:
        canon = None
    TICK.take_log()
    probes = []
    for p in ROOTS[rootname]["probes"]:
        ob = O.apply_impl(m, p)
        log = TICK.take_log()
        probes.append(ob)
        if not twin:
            viols.extend(uncached_checks(m, p, ob, log))
    if not twin:
        # uncached cells never hold values
        from mxmc.session import safe
        for s in walk_spaces(m):
            for n, c in s.cells.items():
                st = safe(lambda: (bool(c.is_cached), len(c)))
                if isinstance(st, str):
                    viols.append(("broken", {"cells": space_path(s) + "." + n, "error": st}, "readable flag / length"))
                elif not st[0] and st[1] != 0:
                    viols.append(("no-hold", {"cells": space_path(s) + "." + n, "len": st[1]}, 0))
    return canon, obs, edit_obs, probes, viols


def uncached_checks(m, op, ob, log):
    """rerun: a direct call of an uncached cells starts its formula."""
    out = []
    try:
        sp = O.resolve(m, op["sp"])
        c = sp.cells[op["c"]]
        if not c.is_cached and ob[0] == "ok":
            nm = space_path(sp) + "." + op["c"]
            if not any(e[0] == nm for e in log):
                out.append(("rerun", {"query": op, "starts": log}, "the uncached cells' formula runs on every call"))
    except BaseException:
        pass
    return out


def assigned_cells(hist):
    # by cells *name*: derived cells share the flag of their base cells
    return {op["c"] for op in hist if op["op"] == "set_input"}


def ever_uncached(unc, hist):
    s = {u[1] for u in unc}
    for op in hist:
        if op["op"] == "set_cached" and not op["v"]:
            s.add(op["c"])
    return s


def run_history(rootname, unc, hist, warm=False):
    unc = [tuple(u) for u in unc]
    case = {"root": rootname, "uncached": [list(u) for u in unc], "history": hist, "warm": warm}
    canon, obs, eobs, probes, vs = run(rootname, unc, hist, twin=False, warm=warm)
    viols = [{"clause": c, "case": case, "observed": o, "expected": e} for c, o, e in vs]
    info = {"compared": 0}
    if assigned_cells(hist) & ever_uncached(unc, hist):
        return canon, viols, digest([obs, probes]), info
    hkey = (rootname, warm, json.dumps([op for op in hist if op["op"] != "set_cached"], sort_keys=True))
    tw = _twin_memo.get(hkey)
    if tw is None:
        _, tobs, teobs, tprobes, _ = run(rootname, unc, hist, twin=True, warm=warm)
        tw = (tobs, teobs, tprobes)
        if len(_twin_memo) > 100000:
            _twin_memo.clear()
        _twin_memo[hkey] = tw
    tobs, teobs, tprobes = tw
    eobs_nf = [e for e, op in zip(eobs, [o for o in hist if O.is_edit(o)]) if op["op"] != "set_cached"]
    if eobs_nf != teobs:
        info["edit_diverged"] = 1     # an edit accepted under one assignment only: not comparable
        return canon, viols, digest([obs, probes]), info
    info["compared"] = 1
    if obs != tobs or probes != tprobes:
        if obs != tobs:
            i = [k for k, (a, b) in enumerate(zip(obs, tobs)) if a != b][0]
            what = {"eval_index": i, "got": obs[i]}
            exp = {"all_cached": tobs[i]}
        else:
            i = [k for k, (a, b) in enumerate(zip(probes, tprobes)) if a != b][0]
            what = {"probe": ROOTS[rootname]["probes"][i], "got": probes[i]}
            exp = {"all_cached": tprobes[i]}
        viols.append({"clause": "same-values", "case": case, "observed": what, "expected": exp})
    return canon, viols, digest([obs, probes]), info


def assignments(rootname, tier):
    cells = cells_of_spec(ROOTS[rootname]["spec"])
    kmax = len(cells) if tier == "thorough" else 2
    for k in range(1, kmax + 1):
        for unc in itertools.combinations(cells, k):
            yield list(unc)


def work_items(tier, seed):
    items = [{"special": "unhashable"}]
    for name in ROOTS:
        for unc in assignments(name, tier):
            items.append({"root": name, "uncached": [list(u) for u in unc], "warm": False})
            items.append({"root": name, "uncached": [list(u) for u in unc], "warm": True})
    return items


def unhashable_item():
    """Uncached cells accept unhashable arguments and give the reference value."""
    viols = []
    n = 0
    for cached_caller in (True, False):
        reset_world()
        m = mx.new_model("M")
        m.tick = TICK
        s = m.new_space("S")
        s.r = 10
        s.new_cells("u", formula="lambda x: tick() + len(x) + r", is_cached=False)
        s.new_cells("f", formula="lambda: tick() + u([1, 2]) + u({'a': 1})", is_cached=cached_caller)
        case = {"special": "unhashable", "cached_caller": cached_caller}
        for call, exp in ((lambda: s.u([1]), 11), (lambda: s.u({"a": 1, "b": 2}), 12), (lambda: s.f(), 23)):
            ob = observe(call)
            n += 1
            if ob != ("ok", exp):
                viols.append({"clause": "unhashable", "case": case, "observed": ob, "expected": exp})
        s.r = 20
        ob = observe(lambda: s.f())
        n += 1
        if ob != ("ok", 43):
            viols.append({"clause": "unhashable-stale", "case": case, "observed": ob, "expected": 43})
        if len(s.u) != 0:
            viols.append({"clause": "no-hold", "case": case, "observed": len(s.u), "expected": 0})
    return {"counts": {"transitions": n, "states": 2, "compared": n}, "outcomes": ["unhashable"],
            "violations": viols, "samples": []}


def run_item(item, tier):
    if item.get("special") == "unhashable":
        return unhashable_item()
    name, unc = item["root"], item["uncached"]
    r = ROOTS[name]
    alphabet = r["edits"] + r["evals"]
    stats = {"compared": 0, "edit_diverged": 0}

    warm = item.get("warm", False)

    def rh(h):
        c, v, d, info = run_history(name, unc, h, warm)
        stats["compared"] += info.get("compared", 0)
        stats["edit_diverged"] += info.get("edit_diverged", 0)
        return c, v, d, info

    def enabled(hist, info):
        last = hist[-1] if hist else None
        from mxmc.evalfam import prune_noop_flags
        return [op for op in prune_noop_flags(hist, alphabet, [tuple(u) for u in unc]) if op != last]
    res = bfs.explore(rh, enabled, DEPTH[tier])
    res.samples = [{"root": name, "uncached": unc, "history": h, "warm": warm} for h in res.samples[:1]]
    out = res.as_item_result()
    out["counts"].update(stats)
    return out


def check_case(case):
    if case.get("special") == "unhashable":
        return unhashable_item()["violations"]
    _twin_memo.clear()
    return run_history(case["root"], case["uncached"], case["history"], case.get("warm", False))[1]


def shrink_candidates(case):
    if case.get("special"):
        return
    h = case["history"]
    for i in range(len(h)):
        yield dict(case, history=h[:i] + h[i + 1:])
    for i in range(len(case["uncached"])):
        yield dict(case, uncached=case["uncached"][:i] + case["uncached"][i + 1:])
    if case.get("warm"):
        yield dict(case, warm=False)


def script(case):
    if case.get("special"):
        return "# see mxmc/drivers/c09.py unhashable_item()"
    spec = flagged_spec(case["root"], [tuple(u) for u in case["uncached"]])
    pre = O.spec_to_python(spec)
    if case.get("warm"):
        pre += "\n" + "\n".join(O.op_to_python(p) for p in ROOTS[case["root"]]["probes"])
    lines = [pre, "\n".join(O.op_to_python(o) for o in case["history"]), "# probes:"]
    lines += [O.op_to_python(p) for p in ROOTS[case["root"]]["probes"]]
    lines.append("# expected: the same printed values as with every is_cached=True and no is_cached assignments")
    return "\n".join(lines)


def coverage(agg, tier):
    c = agg["counts"]
    return {"states": c.get("states", 0), "transitions": c.get("transitions", 0),
            "traces_validated_against_impl": c.get("transitions", 0), "merged": c.get("merged", 0),
            "flag_assignments": agg["items"] - 1, "depth": DEPTH[tier], "exhaustive": True,
            "histories_compared_with_all_cached_twin": c.get("compared", 0),
            "histories_not_comparable": c.get("edit_diverged", 0)}


def vacuity(agg, tier):
    if agg["counts"].get("compared", 0) < 1000:
        return "too few histories compared"
