"""C20 Formula capture is faithful and idempotent; rename and doc edits are inert.

Bounded-exhaustive enumeration of the full cross product

    form x cells-name mode x parameters x docstring x comment position x body x indentation

of syntactic layouts of function texts (source strings, function / lambda objects defined in a real
temporary module file, decorated defs, lambdas embedded in assignments and calls).  Every valid
text is given to the REAL modelx (``new_cells`` / ``defcells``) and judged by the clauses

    capture      creating the cells from a supported form does not fail
    behaves      cells(args) == the plain function with its globals bound to the space
    self-contained   exec(formula.source) defines the same function under the cells' name
                     (def) / evaluates to it (lambda)
    idempotent   new_cells(name, source).formula.source == source, same behaviour
    rename-inert after rename the source differs only in the name; parameters, doc, behaviour equal
    doc-inert    after ``doc = d`` (menu of replacement docs) nothing raises, doc == d,
                 parameters / behaviour equal, source otherwise unchanged;
                 keyed by (layout class, doc class)

The reference function is compiled by CPython from the canonical (unindented, undecorated) text
that the generator itself assembled - modelx takes no part in building it.
"""
import ast
import inspect
import io
import itertools
import json
import linecache
import os
import re
import shutil
import sys
import tempfile
import textwrap
import token as token_mod
import tokenize

import modelx as mx
from mxmc.session import reset_world, observe, render, digest, safe

PROPERTY = "C20"
LEVEL = "exploration"
ASSUMPTIONS = [
    "CPython 3.12 compile/exec/tokenize/inspect are trusted: the reference function is what CPython "
    "compiles from the canonical (unindented, undecorated) text assembled by the generator",
    "decorators applied to function objects are identity decorators (or modelx.defcells itself)",
    "globals used by the bodies: one sibling cells g(x) and one reference r of the cells' space",
    "a lambda OBJECT whose source line holds a second (nested) lambda is rejected by modelx up front with "
    "its explicit ValueError 'more than 1 lambda expressions found'; this one form is counted as "
    "unsupported, not as a violation; every other failure to create the cells is a violation",
    "in the spaces used for the idempotence and doc-replacement clauses the name g is bound to the same "
    "sibling cells through a reference",
    "source comparison after rename / doc replacement is token based: blank lines and line-break "
    "layout are not compared, every other token (comments included) is",
    "ASCII texts only",
]

# ----------------------------------------------------------------------------------------------
# the space every cells lives in:  ref r, sibling cells g

R_VALUE = 10
G_SOURCE = "lambda x: x * 7 + 1"


def g_ref(x):
    return x * 7 + 1


# ----------------------------------------------------------------------------------------------
# grammar.  Every dimension is ordered "simplest first" (used by shrinking).

DEF_FORMS = ["src-def", "src-deco1", "src-deco2", "src-decoml",
             "obj-def", "obj-deco1", "obj-deco2", "obj-decoml", "obj-defcells"]
LAM_FORMS = ["src-lambda", "src-assign", "src-call", "obj-assign", "obj-call", "obj-pair"]
# obj-pair: the lambda object is the SECOND lambda on its source line (modelx refuses it explicitly; capturing
# the wrong lambda instead would be a violation)
FORMS = DEF_FORMS + LAM_FORMS
NAMES = ["auto", "other"]         # auto: cells named after the function; other: cells 'c' from 'def f'/lambda
PARAMS = ["p1", "p0", "p2", "pa"]
DOCSTRINGS = ["none", "one", "multi", "quote", "raw", "single"]
COMMENTS = ["none", "lead", "defline", "lastline", "after", "after0", "inner0"]
BODIES = ["multi", "oneline", "ndef", "nlambda", "nclass", "comp", "paren", "ndeco", "nstatic"]
LAM_BODIES = ["multi", "nlambda", "comp", "paren"]     # "multi" stands for the simple expression
INDENTS = ["0", "0n", "4", "8", "tab", "tq4", "0t"]
OBJ_INDENTS = ["0", "4", "8", "tab", "0t"]

DIMS = [("form", FORMS), ("name", NAMES), ("params", PARAMS), ("doc", DOCSTRINGS),
        ("comment", COMMENTS), ("body", BODIES), ("indent", INDENTS)]

# clause key of the form-dependent clauses: how the text reaches modelx x what it defines.  The
# decorator / embedding variant is NOT part of the clause: it stays visible in the shrunk case.
FAMILY = {f: f[:3] + ("-lambda" if f in LAM_FORMS else "-def") for f in FORMS}

SIG = {"p0": "()", "p1": "(x)", "p2": "(x, y=1)", "pa": "(x: int, y: float = 1.5) -> int"}
LAM_SIG = {"p0": "lambda:", "p1": "lambda x:", "p2": "lambda x, y=1:"}
ARGS = {"p0": [[]], "p1": [[0], [1], [2]], "p2": [[0], [1], [2], [1, 2]], "pa": [[0], [1], [2], [1, 2]]}

DOCSTRING_LINES = {
    "one": ['"""One line doc."""'],
    "multi": ['"""First line.', '', '@More text.', '@"""'],      # '@' = body indentation
    "quote": ["'''Ends with a \"quote\"'''"],
    "raw": ['r"""Raw \\d doc."""'],
    "single": ["'single quoted doc'"],
}

# replacement docs: name -> (doc, insert_indents)
DOC_MENU_QUICK = ["plain", "multi", "multi-indent", "quote-end", "backslash"]
DOC_MENU_ALL = DOC_MENU_QUICK + ["plain-indent", "triple-quote", "backslash-end", "empty"]
DOC_MENU = {
    "plain": ("Plain replacement doc.", False),
    "multi": ("First new line.\n\nSecond new paragraph.\n", False),
    "multi-indent": ("First new line.\n\nSecond new paragraph.\n", True),
    "quote-end": ('Ends with a "quote"', False),
    "backslash": ("Path C:\\new\\table", False),
    "plain-indent": ("Plain replacement doc.", True),
    "triple-quote": ('Has """ inside', False),
    "backslash-end": ("Ends with \\", False),
    "empty": ("", False),
}


PREAMBLE = [
    "# module written by the C20 check",
    "r = %d" % R_VALUE,
    "def g(x):",
    "    return x * 7 + 1",
    "def deco(fn):",
    "    return fn",
    "def deco_args(*args, **kwargs):",
    "    return deco",
    "def bump(fn):",
    "    return lambda *a: fn(*a) + 5",
    "def ident(fn, *rest):",
    "    return fn",
    "BEFORE = lambda q: q - 1      # another lambda on an earlier line of the module",
]
EPILOGUE = ["AFTER = lambda q: q + 1       # ... and one on a later line", "END = 1"]
EXPLICIT_REJECTION = "more than 1 lambda expressions found"


class Skip(Exception):
    """The combination is not a text of the grammar (counted, never reported)."""


def _is_lambda_form(form):
    return form in LAM_FORMS


def build(case):
    """Assemble the function text of a case.

    Returns a dict: kind ('def'|'lambda'), via ('src'|'obj'), text (the source string handed to
    modelx, or the content of the module file), canon (canonical text the reference function is
    compiled from), fname, cname (cells name), pass_name (name argument of new_cells or None).
    Raises Skip for combinations outside the grammar.
    """
    form, name, params = case["form"], case["name"], case["params"]
    doc, comment, body, ind = case["doc"], case["comment"], case["body"], case["indent"]
    via = form[:3]
    lam = _is_lambda_form(form)
    if via == "obj" and ind not in OBJ_INDENTS:
        raise Skip("indent-kind-is-source-only")
    unit = "\t" if ind == "0t" else "    "
    has_x = params != "p0"
    has_y = params in ("p2", "pa")
    X = "x" if has_x else "2"
    Y = " + y * 1000" if has_y else ""
    C = "  # c"

    if lam:
        if params == "pa":
            raise Skip("lambda-annotations")
        if doc != "none":
            raise Skip("lambda-docstring")
        if body not in LAM_BODIES:
            raise Skip("lambda-statement-body")
        if name != "auto":
            raise Skip("lambda-name-mode")
        if comment in ("after0", "inner0"):
            raise Skip("lambda-comment-kind")
        head = LAM_SIG[params]
        if body == "multi":
            lam_lines = ["%s g(%s) + r%s" % (head, X, Y)]
        elif body == "nlambda":
            lam_lines = ["%s (lambda a: g(a) + r)(%s)%s" % (head, X, Y)]
        elif body == "comp":
            lam_lines = ["%s sum([g(i) for i in range(%s + 1)]) + r%s" % (head, X, Y)]
        else:
            lam_lines = ["%s (g(%s) +" % (head, X), "        r%s)" % Y]
        canon = "\n".join(lam_lines)
        pre, post = {"src-lambda": ("", ""), "src-assign": ("f = ", ""), "src-call": ("ident(", ", 3)"),
                     "obj-assign": ("f = ", ""), "obj-call": ("f = ident(", ", 3)"),
                     "obj-pair": ("other, f = lambda z, zz=5: z - 1000, ", "")}[form]
        lines = list(lam_lines)
        lines[0] = pre + lines[0]
        lines[-1] = lines[-1] + post
        if comment == "defline":
            lines[0] += C
        elif comment == "lastline":
            lines[-1] += C
        elif comment == "lead":
            lines.insert(0, "# lead comment")
        elif comment == "after":
            lines.append("# after")
        kind, fname, cname, pass_name = "lambda", "f", "f", "f"
    else:
        if name == "other" and form == "obj-defcells":
            deco_lines = ['@mx.defcells(name="c")']
        elif form == "obj-defcells":
            deco_lines = ["@mx.defcells"]
        else:
            deco_lines = {"def": [], "deco1": ["@deco"], "deco2": ["@deco", "@deco_args(1, k=2)"],
                          "decoml": ["@deco_args(1,", "           k=2)"]}[form[4:]]
        header = "def f%s:" % SIG[params]
        dlines = [l.replace("@", unit if body == "oneline" else "") for l in DOCSTRING_LINES[doc]] \
            if doc != "none" else []
        if body == "oneline":
            if comment in ("after", "inner0"):
                raise Skip("oneline-comment-kind")
            stmt = "return g(%s) + r%s" % (X, Y)
            if dlines:
                blines = [header + " " + dlines[0]] + dlines[1:]
                blines[-1] += "; " + stmt
            else:
                blines = [header + " " + stmt]
            if comment in ("defline", "lastline"):
                blines[-1] += C          # the def line is the last line
            body_lines = blines
            canon_lines = list(blines)
        else:
            if body == "multi":
                st = ["t = g(%s)" % X, "return t + r%s" % Y]
            elif body == "ndef":
                st = ["def h(a):", unit + "return g(a) + r", "return h(%s)%s" % (X, Y)]
            elif body == "nlambda":
                st = ["h = lambda a: g(a) + r", "return h(%s)%s" % (X, Y)]
            elif body == "nclass":
                st = ["class K:", unit + "v = 3", unit + "def m(self, a):", unit + unit + "return g(a) + r",
                      "return K().m(%s) + K.v%s" % (X, Y)]
            elif body == "comp":
                st = ["return sum([g(i) for i in range(%s + 1)]) + r%s" % (X, Y)]
            elif body == "ndeco":       # a decorated def nested in the function: its decorator is part of the body
                st = ["@bump", "def h(a):", unit + "return g(a) + r", "return h(%s)%s" % (X, Y)]
            elif body == "nstatic":     # a decorated method of a nested class
                st = ["class K:", unit + "@staticmethod", unit + "def m(a):", unit + unit + "return g(a) + r",
                      "return K().m(%s)%s" % (X, Y)]
            else:
                st = ["return (g(%s) +" % X, "        r%s)" % Y]
            if comment == "inner0" and len(st) < 2:
                raise Skip("inner-comment-needs-two-lines")
            blk = [(unit + l if l else l) for l in dlines] + [unit + l for l in st]
            hdr = header
            if comment == "defline":
                hdr += C
            elif comment == "lastline":
                blk[-1] += C
            elif comment == "after":
                blk.append(unit + "# after body")
            elif comment == "inner0":
                blk.insert(len(dlines) + 1, "\x00# inner comment at column 0")
            body_lines = [hdr] + blk
            canon_lines = [l.lstrip("\x00") for l in body_lines]
        lines = deco_lines + body_lines
        if comment == "lead":
            lines.insert(0, "# lead comment")
        elif comment == "after0":
            lines.append("# after, at def level")
        canon = "\n".join(canon_lines) + "\n"
        kind, fname = "def", "f"
        if name == "auto":
            cname, pass_name = "f", None
        else:
            cname, pass_name = "c", "c"
        if form == "obj-defcells":
            pass_name = None

    # indentation
    if via == "src":
        prefix = {"0": "", "0n": "", "4": "    ", "8": "        ", "tab": "\t", "tq4": "    ", "0t": ""}[ind]
        out = [(l[1:] if l.startswith("\x00") else (prefix + l if l else l)) for l in lines]
        text = "\n".join(out)
        if ind == "0n":
            text += "\n"
        elif ind == "tq4":
            text = "\n" + text + "\n    "
    else:
        wrap, prefix = {"0": ([], ""), "0t": ([], ""), "4": (["if True:"], "    "),
                        "8": (["if True:", "    if True:"], "        "),
                        "tab": (["if True:"], "\t")}[ind]
        out = [(l[1:] if l.startswith("\x00") else (prefix + l if l else l)) for l in lines]
        pre = list(PREAMBLE)
        if form == "obj-defcells":
            pre.insert(1, "import modelx as mx")
        text = "\n".join(pre + wrap + out + EPILOGUE) + "\n"
    return {"kind": kind, "via": via, "form": form, "text": text, "canon": canon, "fname": fname,
            "cname": cname, "pass_name": pass_name}


# ----------------------------------------------------------------------------------------------
# reference function (CPython only)

def bump(fn):
    """Decorator used by nested definitions (bound as a reference in the spaces)."""
    def wrapped(*a):
        return fn(*a) + 5
    return wrapped


def ref_namespace():
    return {"r": R_VALUE, "g": g_ref, "bump": bump}


def reference(T):
    ns = ref_namespace()
    if T["kind"] == "def":
        exec(compile(T["canon"], "<c20-reference>", "exec"), ns)
        return ns[T["fname"]]
    return eval(compile(T["canon"], "<c20-reference>", "eval"), ns)


def valid_python(T):
    try:
        if T["via"] == "src":
            ast.parse(textwrap.dedent(T["text"]))
        else:
            compile(T["text"], "<c20-file>", "exec")
        return True
    except SyntaxError:
        return False


def cdoc(d):
    return None if d is None else inspect.cleandoc(d)


# ----------------------------------------------------------------------------------------------
# token based source comparison

def _tokens(src):
    return list(tokenize.generate_tokens(io.StringIO(src).readline))


def code_tokens(src, strip_doc=True, rename_to=None):
    """[(type name, string)] of a def source, NL tokens dropped; optionally without the docstring
    statement; optionally with the function name replaced."""
    tree = ast.parse(src)
    fn = tree.body[0]
    if not isinstance(fn, ast.FunctionDef):
        raise ValueError("not a def")
    span = None
    b0 = fn.body[0]
    if strip_doc and isinstance(b0, ast.Expr) and isinstance(b0.value, ast.Constant) \
            and isinstance(b0.value.value, str):
        span = ((b0.lineno, b0.col_offset), (b0.end_lineno, b0.end_col_offset))
    out = []
    skip_sep = False
    after_def = False
    renamed = False
    for t in _tokens(src):
        if t.type == token_mod.NL:
            continue
        if span is not None and span[0] <= t.start < span[1]:
            skip_sep = True
            continue
        if skip_sep:
            skip_sep = False
            if t.type == token_mod.NEWLINE or (t.type == token_mod.OP and t.string == ";"):
                continue
        s = t.string
        if t.type in (token_mod.NEWLINE, token_mod.ENDMARKER):
            s = ""
        if after_def and not renamed:
            renamed = True
            if rename_to is not None:
                s = rename_to
        if t.type == token_mod.NAME and t.string == "def" and not renamed:
            after_def = True
        out.append((token_mod.tok_name[t.type], s))
    return out


def first_diff(a, b):
    for i, (x, y) in enumerate(zip(a, b)):
        if x != y:
            return {"at": i, "got": list(x), "want": list(y)}
    if len(a) != len(b):
        return {"at": min(len(a), len(b)), "got_len": len(a), "want_len": len(b)}
    return None


# ----------------------------------------------------------------------------------------------
# one world per text

class World:
    def __init__(self, T, tmpdir):
        self.T = T
        self.tmpdir = tmpdir
        self.path = None
        self.code = None
        self.nspace = 0
        reset_world()
        self.m = mx.new_model("M")
        if T["via"] == "obj":
            # one module file per worker, rewritten for every text (a user editing and re-running a module):
            # captures must not depend on what the file held before
            self.modname = "c20mod_%d" % os.getpid()
            self.path = os.path.join(tmpdir, self.modname + ".py")
            with open(self.path, "w") as f:
                f.write(T["text"])
            self.code = compile(T["text"], self.path, "exec")

    counter = 0

    def space(self):
        self.nspace += 1
        s = self.m.new_space("S%d" % self.nspace)
        s.r = R_VALUE
        s.bump = bump
        if self.nspace == 1:
            self.g = s.new_cells("g", formula=G_SOURCE)       # the sibling cells
        else:
            s.g = self.g                                       # same cells, bound as a reference
        return s

    def load(self):
        """Execute the module file; returns its namespace."""
        ns = {"__name__": self.modname, "__file__": self.path}
        exec(self.code, ns)
        return ns

    def create(self, s):
        """Create the cells of this text in space s the way the form prescribes."""
        T = self.T
        if T["via"] == "src":
            if T["pass_name"] is None:
                return s.new_cells(formula=T["text"])
            return s.new_cells(T["pass_name"], formula=T["text"])
        if T["form"] == "obj-defcells":
            self.m.cur_space(s.name)
            ns = self.load()
            return ns[T["fname"]]
        ns = self.load()
        fn = ns[T["fname"]]
        if T["pass_name"] is None:
            return s.new_cells(formula=fn)
        return s.new_cells(T["pass_name"], formula=fn)

    def close(self):
        if self.path is not None:
            linecache.cache.pop(self.path, None)
            try:
                os.remove(self.path)
            except OSError:
                pass


def values(fn, argsets):
    return [list(observe(fn, *a)) for a in argsets]


def layout_class(case):
    if _is_lambda_form(case["form"]):
        return "lambda"
    return "def-%s-%s" % ("oneline" if case["body"] == "oneline" else "block",
                          "nodoc" if case["doc"] == "none" else "doc")


def check_text(case, tmpdir, docs, only=None):
    """Run the clauses on the text of ``case``.

    Returns (status, violations, outcome, nevals).  status in 'skip:<why>', 'invalid-python',
    'unsupported', 'checked'.
    """
    try:
        T = build(case)
    except Skip as e:
        return "skip:" + str(e), [], None, 0
    if not valid_python(T):
        return "invalid-python", [], None, 0
    viols = []
    fam = FAMILY[case["form"]]

    def bad(check, clause, observed, expected, detail=None):
        c = dict(case)
        c["check"] = check
        viols.append({"clause": clause, "case": c, "observed": observed, "expected": expected,
                      "detail": detail})

    def want(check):
        return only is None or only == check

    ref = reference(T)
    argsets = ARGS[case["params"]]
    ref_vals = [["ok", render(ref(*a))] for a in argsets]
    ref_sig = str(inspect.signature(ref))
    ref_params = list(inspect.signature(ref).parameters)
    ref_doc = cdoc(ref.__doc__)
    nevals = 0
    w = World(T, tmpdir)
    try:
        # ---- capture ---------------------------------------------------------------------
        try:
            s = w.space()
        except (KeyboardInterrupt, SystemExit):
            raise
        except BaseException as e:       # the sibling cells g (a plain lambda source) cannot be created
            bad("capture", "capture-raises[setup]:%s" % type(e).__name__,
                "%s: %s" % (type(e).__name__, str(e)[:120]), "sibling cells g = " + G_SOURCE)
            return "checked", viols, digest(["setup-raises", type(e).__name__]), 0
        try:
            c = w.create(s)
        except ValueError as e:
            # the one form modelx declares unsupported: a lambda OBJECT whose source line holds a
            # second lambda (inspect cannot tell them apart).  Anything else is a failed capture.
            if str(e) == EXPLICIT_REJECTION and T["via"] == "obj" and T["kind"] == "lambda" \
                    and (case["body"] == "nlambda" or case["form"] == "obj-pair"):
                return "unsupported", [], None, 0
            bad("capture", "capture-raises[%s]:ValueError" % fam, "ValueError: " + str(e)[:120], "a cells")
            return "checked", viols, digest(["capture-raises", "ValueError"]), 0
        except (KeyboardInterrupt, SystemExit):
            raise
        except BaseException as e:
            bad("capture", "capture-raises[%s]:%s" % (fam, type(e).__name__),
                "%s: %s" % (type(e).__name__, str(e)[:120]), "a cells")
            return "checked", viols, digest(["capture-raises", type(e).__name__]), 0
        cname = T["cname"]
        src0 = safe(lambda: c.formula.source)
        name0 = safe(lambda: c.name)
        if want("capture") and name0 != cname:
            bad("capture", "capture-name[%s]" % fam, name0, cname)
        if not isinstance(src0, str) or src0.startswith("BROKEN:"):
            if want("capture"):
                bad("capture", "capture-source[%s]" % fam, render(src0), "source text")
            return "checked", viols, digest(["no-source"]), 0

        # ---- behaves ---------------------------------------------------------------------
        got_vals = values(c, argsets)
        nevals += len(argsets)
        got_params = safe(lambda: list(c.parameters))
        if want("behaves"):
            if got_vals != ref_vals:
                bad("behaves", "behaves[%s]:value" % fam, got_vals, ref_vals, {"source": src0})
            if got_params != ref_params:
                bad("behaves", "behaves[%s]:params" % fam, got_params, ref_params, {"source": src0})
        outcome = digest([src0, got_vals, got_params])

        # ---- self-contained --------------------------------------------------------------
        if want("self-contained"):
            ns = ref_namespace()
            fn = None
            try:
                if T["kind"] == "def":
                    before = set(ns)
                    exec(compile(src0, "<c20-captured>", "exec"), ns)
                    fn = ns.get(cname)
                    new = sorted(set(ns) - before - {"__builtins__"})
                    if not inspect.isfunction(fn) or new != [cname]:
                        bad("self-contained", "self-contained[%s]:defines" % fam, new, [cname], {"source": src0})
                        fn = None
                else:
                    fn = eval(compile(src0, "<c20-captured>", "eval"), ns)
                    if not inspect.isfunction(fn):
                        bad("self-contained", "self-contained[%s]:defines" % fam, render(fn), "a function",
                            {"source": src0})
                        fn = None
            except (KeyboardInterrupt, SystemExit):
                raise
            except BaseException as e:
                bad("self-contained", "self-contained[%s]:exec-raises" % fam,
                    "%s: %s" % (type(e).__name__, str(e)[:120]), "definition of " + cname, {"source": src0})
            if fn is not None:
                if T["kind"] == "def" and fn.__name__ != cname:
                    bad("self-contained", "self-contained[%s]:name" % fam, fn.__name__, cname, {"source": src0})
                sig = safe(lambda: str(inspect.signature(fn)))
                if sig != ref_sig:
                    bad("self-contained", "self-contained[%s]:signature" % fam, sig, ref_sig, {"source": src0})
                if cdoc(fn.__doc__) != ref_doc:
                    bad("self-contained", "self-contained[%s]:doc" % fam, fn.__doc__, ref_doc, {"source": src0})
                v = values(fn, argsets)
                if v != ref_vals:
                    bad("self-contained", "self-contained[%s]:value" % fam, v, ref_vals, {"source": src0})

        # ---- idempotent ------------------------------------------------------------------
        if want("idempotent"):
            modes = [("named", cname)] + ([("auto", None)] if T["kind"] == "def" else [])
            for mode, nm in modes:
                s2 = w.space()
                try:
                    c2 = s2.new_cells(formula=src0) if nm is None else s2.new_cells(nm, formula=src0)
                except (KeyboardInterrupt, SystemExit):
                    raise
                except BaseException as e:
                    bad("idempotent", "idempotent[%s]:raises" % fam, "%s: %s" % (type(e).__name__, str(e)[:120]),
                        "a cells", {"source": src0, "mode": mode})
                    continue
                src2 = safe(lambda: c2.formula.source)
                if src2 != src0:
                    bad("idempotent", "idempotent[%s]:source" % fam, src2, src0, {"mode": mode})
                if safe(lambda: c2.name) != cname:
                    bad("idempotent", "idempotent[%s]:name" % fam, safe(lambda: c2.name), cname, {"mode": mode})
                v = values(c2, argsets)
                nevals += len(argsets)
                if v != ref_vals:
                    bad("idempotent", "idempotent[%s]:value" % fam, v, ref_vals, {"source": src0, "mode": mode})
                if safe(lambda: list(c2.parameters)) != ref_params:
                    bad("idempotent", "idempotent[%s]:params" % fam, safe(lambda: list(c2.parameters)), ref_params,
                        {"mode": mode})

        # ---- rename-inert ----------------------------------------------------------------
        if want("rename"):
            lay = "lambda" if T["kind"] == "lambda" else "def"
            c3 = c                  # the captured cells itself; nothing above has modified it
            src_b = c3.formula.source
            doc_b = safe(lambda: c3.doc)
            par_b = safe(lambda: list(c3.parameters))
            new = "n2"
            ob = observe(c3.rename, new)
            if ob[0] != "ok":
                bad("rename", "rename-inert[%s]:raises" % lay, list(ob), "renamed", {"source": src_b})
            else:
                src_a = safe(lambda: c3.formula.source)
                if safe(lambda: c3.name) != new:
                    bad("rename", "rename-inert[%s]:name" % lay, safe(lambda: c3.name), new)
                if T["kind"] == "lambda":
                    if src_a != src_b:
                        bad("rename", "rename-inert[lambda]:source", src_a, src_b)
                else:
                    try:
                        d = first_diff(code_tokens(src_a, strip_doc=False),
                                       code_tokens(src_b, strip_doc=False, rename_to=new))
                    except (KeyboardInterrupt, SystemExit):
                        raise
                    except BaseException as e:
                        d = {"error": "%s: %s" % (type(e).__name__, str(e)[:100])}
                    if d is not None:
                        bad("rename", "rename-inert[def]:source", src_a, src_b, {"diff": d})
                    # still a definition under the (new) cells' name
                    ns = ref_namespace()
                    ok = safe(lambda: exec(compile(src_a, "<c20-renamed>", "exec"), ns))
                    if not inspect.isfunction(ns.get(new)) or ns[new].__name__ != new:
                        bad("rename", "rename-inert[def]:defines", render(ok), new, {"source": src_a})
                if safe(lambda: c3.doc) != doc_b:
                    bad("rename", "rename-inert[%s]:doc" % lay, safe(lambda: c3.doc), doc_b)
                if safe(lambda: list(c3.parameters)) != par_b or par_b != ref_params:
                    bad("rename", "rename-inert[%s]:params" % lay, safe(lambda: list(c3.parameters)), par_b)
                v = values(c3, argsets)
                nevals += len(argsets)
                if v != ref_vals:
                    bad("rename", "rename-inert[%s]:value" % lay, v, ref_vals, {"source": src_a})

        # ---- doc-inert -------------------------------------------------------------------
        lay = layout_class(case)
        for dname in docs:
            chk = "doc:" + dname
            if not want(chk):
                continue
            d, ins = DOC_MENU[dname]
            key = "doc-inert[%s,%s]" % (lay, dname)
            s4 = w.space()
            c4 = w.create(s4)
            src_b = c4.formula.source
            par_b = safe(lambda: list(c4.parameters))
            if ins:
                ob = observe(c4.set_doc, d, insert_indents=True)
            else:
                ob = observe(setattr, c4, "doc", d)
            if ob[0] != "ok":
                bad(chk, key + ":raises", list(ob), "doc replaced", {"source": src_b, "doc": d})
                continue
            got = safe(lambda: c4.doc)
            if (cdoc(got) != cdoc(d)) if ins else (got != d):
                bad(chk, key + ":doc", got, d, {"source": safe(lambda: c4.formula.source)})
            src_a = safe(lambda: c4.formula.source)
            if T["kind"] == "lambda":
                if src_a != src_b:
                    bad(chk, key + ":source", src_a, src_b)
            else:
                try:
                    df = first_diff(code_tokens(src_a), code_tokens(src_b))
                except (KeyboardInterrupt, SystemExit):
                    raise
                except BaseException as e:
                    df = {"error": "%s: %s" % (type(e).__name__, str(e)[:100])}
                if df is not None:
                    bad(chk, key + ":source", src_a, src_b, {"diff": df})
            if safe(lambda: c4.name) != cname:
                bad(chk, key + ":name", safe(lambda: c4.name), cname)
            if safe(lambda: list(c4.parameters)) != par_b or par_b != ref_params:
                bad(chk, key + ":params", safe(lambda: list(c4.parameters)), par_b)
            v = values(c4, argsets)
            nevals += len(argsets)
            if v != ref_vals:
                bad(chk, key + ":value", v, ref_vals, {"source": src_a})
        return "checked", viols, outcome, nevals
    finally:
        w.close()


# ----------------------------------------------------------------------------------------------
# driver protocol

def tier_dims(tier):
    if tier == "quick":
        return {"form": ["src-def", "src-deco2", "src-decoml", "obj-def", "obj-deco2", "obj-decoml", "obj-defcells"]
                + LAM_FORMS,
                "name": NAMES, "indent": ["0", "4", "tab"],
                "doc": ["none", "one", "multi", "quote", "raw"],
                "comment": ["none", "lead", "defline", "lastline", "after"],
                "docs": DOC_MENU_QUICK,
                "def_params": ["p1", "pa"], "lam_params": ["p1", "p2"],
                "def_body": ["multi", "oneline", "ndef", "nclass", "comp", "paren", "ndeco", "nstatic"],
                "lam_body": LAM_BODIES}
    return {"form": FORMS, "name": NAMES, "indent": INDENTS, "doc": DOCSTRINGS,
            "comment": COMMENTS, "docs": DOC_MENU_ALL,
            "def_params": PARAMS, "lam_params": PARAMS, "def_body": BODIES, "lam_body": BODIES}


def work_items(tier, seed):
    """One item = (form, name mode, parameters, indentation, docstring); it enumerates comment x body.

    Items whose every text is outside the grammar (lambda forms with a name mode other than the
    first, annotated lambdas, source-only indentation kinds for file objects) are still emitted so
    that the skipped combinations are counted by the run itself.
    """
    D = tier_dims(tier)
    items = []
    for form in D["form"]:
        menu = D["lam_params"] if _is_lambda_form(form) else D["def_params"]
        for name in D["name"]:
            for params in menu:
                for ind in D["indent"]:
                    for doc in D["doc"]:
                        items.append({"form": form, "name": name, "params": params, "indent": ind, "doc": doc})
    return items


def _size(case):
    return sum(vals.index(case[k]) for k, vals in DIMS)


def run_item(item, tier):
    D = tier_dims(tier)
    counts = {"combinations": 0, "texts": 0, "cell_evaluations": 0, "nontrivial": 0, "unsupported": 0,
              "invalid_python": 0, "duplicate_text": 0, "skipped_not_in_grammar": 0, "violating_texts": 0}
    outcomes = set()
    samples = []
    seen_text = set()
    by_clause = {}
    skip_kinds = set()
    unsupported = []
    tmpdir = tempfile.mkdtemp(prefix="c20_")
    try:
        bodies = D["lam_body"] if _is_lambda_form(item["form"]) else D["def_body"]
        doc = item["doc"]
        for comment, body in itertools.product(D["comment"], bodies):
            case = dict(item, comment=comment, body=body)
            counts["combinations"] += 1
            try:
                T = build(case)
            except Skip as e:
                counts["skipped_not_in_grammar"] += 1
                skip_kinds.add(str(e))
                continue
            key = (T["text"], T["pass_name"])
            if key in seen_text:
                counts["duplicate_text"] += 1
                continue
            seen_text.add(key)
            status, vs, outcome, nev = check_text(case, tmpdir, D["docs"])
            if status == "invalid-python":
                counts["invalid_python"] += 1
                continue
            if status == "unsupported":
                counts["unsupported"] += 1
                tag = "%s/%s" % (case["form"], case["body"])
                if tag not in unsupported:
                    unsupported.append(tag)
                continue
            counts["texts"] += 1
            counts["cell_evaluations"] += nev
            if nev:
                counts["nontrivial"] += 1
                outcomes.add(outcome)
            if vs:
                counts["violating_texts"] += 1
            for v in vs:
                cur = by_clause.get(v["clause"])
                if cur is None or _size(v["case"]) < _size(cur["case"]):
                    by_clause[v["clause"]] = v
            if len(samples) < 2 and comment != "none" and doc != "none" and body not in ("multi", "oneline"):
                samples.append({"case": case, "text": T["text"] if T["via"] == "src" else T["canon"]})
    finally:
        shutil.rmtree(tmpdir, ignore_errors=True)
    viols = [by_clause[k] for k in sorted(by_clause)]
    # shrink here (each clause once per item) so that the runner only sees fixed points
    from mxmc import core
    out = []
    for v in viols:
        try:
            v = core.shrink(sys.modules[__name__], v)
        except Exception:
            pass
        out.append(v)
    counts["clauses_violated_in_item"] = len(out)
    extra = {"skip_kinds": sorted(skip_kinds)}
    if unsupported:
        extra["unsupported_form_body"] = unsupported
    return {"counts": counts, "outcomes": sorted(outcomes), "violations": out, "samples": samples, "extra": extra}


_MEMO = {}


def check_case(case):
    """Re-execute one case (all clauses, or only the clause group named by case['check'])."""
    key = json.dumps(case, sort_keys=True)
    hit = _MEMO.get(key)
    if hit is None:
        c = dict(case)
        only = c.pop("check", None)
        docs = DOC_MENU_ALL
        if only is not None and only.startswith("doc:"):
            docs = [only[4:]]
        elif only is not None:
            docs = []
        tmpdir = tempfile.mkdtemp(prefix="c20_")
        try:
            status, hit, _, _ = check_text(c, tmpdir, docs, only=only)
        finally:
            shutil.rmtree(tmpdir, ignore_errors=True)
        if len(_MEMO) > 20000:
            _MEMO.clear()
        _MEMO[key] = hit
    return [dict(v, case=dict(v["case"])) for v in hit]


def _static_class(case):
    """What a shrink step must preserve for the clause name to stay the same (statically known)."""
    chk = case.get("check") or ""
    if chk.startswith("doc:"):
        return layout_class(case)
    if chk == "rename":
        return "lambda" if _is_lambda_form(case["form"]) else "def"
    return FAMILY[case["form"]]        # (a failing setup keeps failing whatever the case: shrinks to the bottom)


def shrink_candidates(case):
    """Smaller cases, most aggressive first: everything simplest, all but one / two dimensions
    simplest, then one dimension lowered at a time.  Deterministic; only ever lowers dimensions."""
    lam = _is_lambda_form(case["form"])
    cls = _static_class(case)
    low = {k: (vals[0] if not (k == "form" and lam) else LAM_FORMS[0]) for k, vals in DIMS}
    high = [k for k, vals in DIMS if case[k] != low[k]]
    seen = {json.dumps(case, sort_keys=True)}

    def emit(c):
        key = json.dumps(c, sort_keys=True)
        if key in seen:
            return False
        seen.add(key)
        try:
            if _static_class(c) != cls:
                return False
            build({k: v for k, v in c.items() if k != "check"})
        except Skip:
            return False
        return True

    for keep in range(0, 3):
        if keep >= len(high):
            break
        for kept in itertools.combinations(high, keep):
            c = dict(case)
            for k in high:
                if k not in kept:
                    c[k] = low[k]
            if emit(c):
                yield c
    for k, vals in DIMS:
        cur = vals.index(case[k])
        for i in range(cur):
            v = vals[i]
            if k == "form" and _is_lambda_form(v) != lam:
                continue
            c = dict(case, **{k: v})
            if emit(c):
                yield c


def script(case):
    case = dict(case)
    check = case.pop("check", None)
    T = build(case)
    L = ["import modelx as mx", "",
         "m = mx.new_model()", "s = m.new_space('S')", "s.r = %d" % R_VALUE,
         "s.new_cells('g', formula=%r)" % G_SOURCE, ""]
    if T["via"] == "src":
        L.append("text = %r" % T["text"])
        if T["pass_name"] is None:
            L.append("c = s.new_cells(formula=text)")
        else:
            L.append("c = s.new_cells(%r, formula=text)" % T["pass_name"])
    else:
        L += ["import os, shutil, tempfile, importlib.util",
              "d = tempfile.mkdtemp()",
              "path = os.path.join(d, 'c20mod.py')",
              "open(path, 'w').write(%r)" % T["text"],
              "spec = importlib.util.spec_from_file_location('c20mod', path)",
              "mod = importlib.util.module_from_spec(spec)",
              "try:"]
        if T["form"] == "obj-defcells":
            L += ["    m.cur_space('S')", "    spec.loader.exec_module(mod)", "    c = mod.f"]
        else:
            L.append("    spec.loader.exec_module(mod)")
            if T["pass_name"] is None:
                L.append("    c = s.new_cells(formula=mod.f)")
            else:
                L.append("    c = s.new_cells(%r, formula=mod.f)" % T["pass_name"])
        L += ["finally:", "    shutil.rmtree(d, ignore_errors=True)"]
    ref = reference(T)
    argsets = ARGS[case["params"]]
    exp = [ref(*a) for a in argsets]
    L.append("print('cells     :', c.name, c.parameters)")
    L.append("print('source    :', repr(c.formula.source))")
    calls = ", ".join("c(%s)" % ", ".join(map(repr, a)) for a in argsets)
    if check in (None, "capture", "behaves"):
        L.append("print('values    :', [%s], ' expected %r')" % (calls, exp))
    if check in (None, "self-contained"):
        if T["kind"] == "def":
            L += ["ns = {'r': %d, 'g': lambda x: x * 7 + 1}" % R_VALUE,
                  "exec(c.formula.source, ns)   # expected: defines %r, the same function" % T["cname"],
                  "fn = ns[%r]" % T["cname"]]
        else:
            L += ["ns = {'r': %d, 'g': lambda x: x * 7 + 1}" % R_VALUE,
                  "fn = eval(c.formula.source, ns)   # expected: the same lambda"]
        L.append("print('exec      :', [%s], ' expected %r')" % (calls.replace("c(", "fn("), exp))
    if check in (None, "idempotent"):
        L += ["s2 = m.new_space('S2'); s2.r = %d; s2.new_cells('g', formula=%r)" % (R_VALUE, G_SOURCE),
              "c2 = s2.new_cells(%r, formula=c.formula.source)" % T["cname"],
              "print('idempotent:', c2.formula.source == c.formula.source, repr(c2.formula.source))"]
    if check in (None, "rename"):
        L += ["before = c.formula.source",
              "c.rename('n2')   # expected: only the name changes",
              "print('renamed   :', repr(c.formula.source), c.parameters, [%s])" % calls]
    if check is not None and check.startswith("doc:"):
        d, ins = DOC_MENU[check[4:]]
        L.append("d = %r" % d)
        if ins:
            L.append("c.set_doc(d, insert_indents=True)   # expected: no error, docstring replaced, nothing else")
        else:
            L.append("c.doc = d   # expected: no error, c.doc == d, nothing else changes")
        L += ["print('doc       :', repr(c.doc), c.doc == d)",
              "print('source    :', repr(c.formula.source))",
              "print('values    :', [%s], ' expected %r')" % (calls, exp)]
    return "\n".join(L) + "\n"


def coverage(agg, tier):
    c = agg["counts"]
    D = tier_dims(tier)
    dims = {k: D[k] for k in ("form", "name", "def_params", "lam_params", "doc", "comment", "def_body", "lam_body",
                              "indent", "docs")}
    return {
        "evaluations": c.get("texts", 0),
        "distinct_nontrivial": len(agg["outcomes"]),
        "rule": "full cross product form x cells-name mode x parameters x docstring x comment position x body x "
                "indentation over the menus listed under 'dimensions' (def forms use def_params/def_body, lambda "
                "forms lam_params/lam_body): %d combinations enumerated, none sampled.  Combinations outside the "
                "grammar (lambda with a docstring / annotations / statement body / second name mode, comment kinds "
                "that need a block body, source-only indentation kinds for file objects), duplicate texts, texts "
                "CPython itself rejects (a column-0 comment inside an indented source string) and forms modelx "
                "rejects up front with its explicit ValueError (a lambda object with a second lambda on the same "
                "line) are skipped and counted under 'skipped'.  Every remaining text is captured by the real modelx "
                "- from a source string, or from a function / lambda object defined in a real temporary module file "
                "- and judged by the clauses capture / behaves / self-contained / idempotent / rename-inert / "
                "doc-inert (%d replacement docs, each on a freshly captured cells).  evaluations = texts checked; "
                "a text is non-trivial when its cells was created and its formula was executed for every argument "
                "tuple; distinct_nontrivial = number of distinct (captured formula.source, values, parameters) "
                "digests among the non-trivial texts (measured)" % (c.get("combinations", 0), len(D["docs"])),
        "exhaustive": True,
        "combinations": c.get("combinations", 0),
        "texts_checked": c.get("texts", 0),
        "nontrivial_texts": c.get("nontrivial", 0),
        "cell_evaluations": c.get("cell_evaluations", 0),
        "skipped": {k: c.get(k, 0) for k in ("skipped_not_in_grammar", "duplicate_text", "invalid_python",
                                             "unsupported")},
        "violating_texts": c.get("violating_texts", 0),
        "dimensions": dims,
    }


def vacuity(agg, tier):
    c = agg["counts"]
    if c.get("texts", 0) < 1000:
        return "fewer than 1000 texts checked"
    if c.get("nontrivial", 0) < c.get("texts", 0) // 2:
        return "fewer than half of the texts had their formula executed"
    if len(agg["outcomes"]) < 100:
        return "fewer than 100 distinct captured sources"
    if c.get("combinations", 0) != (c.get("texts", 0) + c.get("skipped_not_in_grammar", 0) + c.get("duplicate_text", 0)
                                    + c.get("invalid_python", 0) + c.get("unsupported", 0)):
        return "combination accounting does not add up"
