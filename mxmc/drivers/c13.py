"""C13 Deletion is complete: old handles raise, no value computed from it survives.

The harness keeps a handle to EVERY interface object it has ever seen (spaces, child spaces, cells incl.
derived copies, ItemSpaces, dynamic child spaces, cells in them), harvested after every op.  BFS over every
way a deletion can be triggered (direct deletion of cells / spaces / references, base member removed,
base relation removed, ItemSpaces discarded directly or by base edits) mixed with evaluations.
Oracle after every op: a handle that is no longer reachable from the model raises DeletedObjectError on
every probe; a handle that does not raise IS the object currently reachable under its name; no bases
list, container or dependency-graph node mentions a dead object; values equal those of a fresh model that
replayed only the edits.
"""
import json

import modelx as mx
from modelx.core.errors import DeletedObjectError
from modelx.core.system import mxsys

from mxmc import bfs, ops as O
from mxmc.session import (reset_world, observe, safe, digest, session_canon, walk_spaces, space_path, render)

PROPERTY = "C13"
LEVEL = "model_checking"
ASSUMPTIONS = [
    "'deleted' = no longer reachable from the model through its public containers (spaces, cells, itemspaces); "
    "reachability is cross-checked against a fresh model that replayed only the edits (static objects)",
    "probes on a handle: name, fullname, parent, call / subscription, formula, cells / len",
]
DEPTH = {"quick": 3, "thorough": 4}


def py(code, edit=True):
    return {"op": "py", "code": code, "edit": edit}


SETUP = [
    "A = m.new_space('A'); A.r = 1; A.new_cells('x', formula='lambda: 1 + r')",
    "T = A.new_space('T'); T.new_cells('tc', formula='lambda: 10')",
    "Sub = m.new_space('Sub', bases=[A])",
    "X = m.new_space('X', bases=[A.T])",        # derives from a child of A
    "SubSub = m.new_space('SubSub', bases=[Sub])",     # sub of a sub
    "P = m.new_space('P', formula='lambda i: None'); P.new_cells('c', formula='lambda: i * 2'); P.k = 3",
    "Q = P.new_space('Q'); Q.new_cells('qc', formula='lambda: 5')",
    "R = P.new_space('R', formula='lambda j: None'); R.new_cells('rc', formula='lambda: i * 10 + j')",
    "O = m.new_space('O'); O.ax = A.x; O.sp = A; O.new_cells('oc', formula='lambda: ax() + 100')",
    "O.new_cells('ot', formula='lambda: sp.T.tc() + 200'); O.new_cells('orr', formula='lambda: sp.r + 300')",
    "O.new_cells('orr2', formula='lambda: sp.r + 301')",      # a second reader of A.r by attribute path
    "D = m.new_space('D', formula='lambda j: {\"base\": A}', refs={'A': A})",
    "O.pp = P; O.new_cells('op', formula='lambda: pp[1].c() + 400')",
]

EVALS = [
    py("m.A.x()", False), py("m.Sub.x()", False), py("m.O.oc()", False), py("m.O.ot()", False),
    py("m.O.orr()", False), py("m.O.orr2()", False), py("m.O.op()", False),
    py("m.P[1].c()", False), py("m.P[1].Q.qc()", False), py("m.D[1].x()", False), py("m.P[2]", False),
    py("m.P[1].R[2].rc()", False),
]
EDITS = [
    py("del m.A.x"), py("del m.A"), py("del m.A.r"), py("del m.A.T"), py("del m.A.T.tc"),
    py("m.Sub.remove_bases(m.A)"), py("del m.Sub"), py("m.Sub.x.formula = 'lambda: 50'"),
    py("del m.P[1]"), py("m.P.clear_items()"), py("m.P.c.formula = 'lambda: i * 3'"), py("m.P.k = 4"),
    py("del m.P.c"), py("del m.P.Q"), py("del m.P"), py("m.P.formula = 'lambda i, j=0: None'"),
    py("m.A.new_cells('z', formula='lambda: 9')"), py("m.D.clear_items()"), py("del m.D"),
    py("del m.O.ax"), py("m.A.x.rename('x2')"), py("m.clear_all()"), py("m.P.clear_at(1)"),
    py("m.P.R.rc.formula = 'lambda: i * 10 + j + 1'"), py("del m.P.R"),
    py("m.O.orr.clear_all()"),      # a partial clear: one of several values computed from an object deleted later
]
PROBE_EXPRS = ["m.X.tc()", "m.SubSub.x()", "m.A.x()", "m.Sub.x()", "m.O.oc()", "m.O.ot()", "m.O.orr()", "m.O.orr2()", "m.O.op()", "m.P[1].c()",
               "m.P[1].Q.qc()", "m.D[1].x()", "m.P[1].R[2].rc()"]


def build():
    reset_world()
    m = mx.new_model("M")
    env = {"m": m, "mx": mx}
    for line in SETUP:
        exec(line, env)
    return m


def reachable(m):
    """{name: object} of every interface object reachable from the model (static and dynamic)."""
    out = {}
    for s in walk_spaces(m, dynamic=True):
        p = space_path(s)
        out[p] = s
        for n, c in s.cells.items():
            out[p + "." + n] = c
    return out


def probes(h, with_call=False):
    """Results of the probes on a handle: list of 'dead' / 'ok' / other exception name.

    The default probes evaluate nothing (an evaluation could re-create an ItemSpace and thereby legitimately
    revive other handles); the call / subscription probe is only used on handles already found dead, where
    it cannot evaluate anything."""
    res = []

    def run(fn):
        try:
            fn()
            res.append("ok")
        except DeletedObjectError:
            res.append("dead")
        except (KeyboardInterrupt, SystemExit):
            raise
        except BaseException as e:
            res.append("exc:" + type(e).__name__)
    run(lambda: h.name)
    run(lambda: h.fullname)
    run(lambda: h.parent)
    run(lambda: h.formula)
    run(lambda: h.model)
    run(lambda: h.doc)
    if isinstance(h, mx.core.cells.Cells):
        run(lambda: h.parameters)
        run(lambda: len(h))
        run(lambda: h.is_cached)
        run(lambda: dict(h))
        if with_call:
            run(lambda: h())
            run(lambda: h(1))
            run(lambda: h[1])
            run(lambda: h.clear())
            run(lambda: h.node())
    else:
        run(lambda: h.cells)
        run(lambda: h.spaces)
        run(lambda: h.bases)
        run(lambda: h.refs)
        run(lambda: dir(h))
        if with_call:
            run(lambda: h[1])
            run(lambda: h(1))
            run(lambda: h.x)
            run(lambda: h.new_cells("zz") if hasattr(h, "new_cells") else h.clear_all())
    return res


class Handles:
    def __init__(self):
        self.items = []     # (label, object)
        self.ids = set()

    def harvest(self, m):
        for name, o in sorted(reachable(m).items()):
            if id(o) not in self.ids:
                self.ids.add(id(o))
                self.items.append(("%s#%d" % (name, len(self.items)), o))


def fresh_probe(edits):
    m = build()
    env = {"m": m, "mx": mx}
    for op in edits:
        O.apply_impl(m, op)
    vals = [observe(lambda e=e: eval(e, {"m": m})) for e in PROBE_EXPRS]
    static = sorted(k for k in reachable(m) if "[" not in k)
    return vals, static


_fresh_memo = {}


def run_history(hist):
    m = build()
    H = Handles()
    H.harvest(m)
    obs = []
    for op in hist:
        obs.append(O.apply_impl(m, op)[0])
        if mxsys.models.get("M") is not None:
            H.harvest(m)
    case = {"history": hist}
    viols = []

    def bad(clause, observed, expected):
        viols.append({"clause": clause, "case": case, "observed": observed, "expected": expected})

    now = reachable(m)
    now_ids = {id(o): n for n, o in now.items()}
    ndead = 0
    for label, h in H.items:
        pr = probes(h)
        kinds = set(pr)
        alive = id(h) in now_ids
        if alive:
            if "dead" in kinds:
                bad("live-current", {"handle": label, "probes": pr, "reachable_as": now_ids[id(h)]},
                    "a reachable object does not raise DeletedObjectError")
                break
        else:
            ndead += 1
            if kinds == {"dead"}:
                pr = probes(h, with_call=True)
                kinds = set(pr)
            if kinds != {"dead"}:
                bad("dead-raise", {"handle": label, "probes": pr},
                    "every probe on a handle to a deleted object raises DeletedObjectError")
                break
    if not viols:
        # no residue: bases lists, graph nodes
        for n, o in now.items():
            if hasattr(o, "bases"):
                bs = safe(lambda: [b._is_valid() for b in o.bases])
                if isinstance(bs, str) or not all(bs):
                    bad("no-residue-bases", {"space": n, "bases_valid": bs}, "only live bases")
                    break
        # a derived cells / reference must still have a live base member to derive from
        for n, o in now.items():
            if isinstance(o, mx.core.cells.Cells) and "[" not in n and safe(lambda: o._is_derived()) is True:
                bs = safe(lambda: [b.interface._is_valid() for b in o._impl.bases])
                if isinstance(bs, str) or not bs or not all(bs):
                    bad("no-residue-derived", {"cells": n, "bases": bs},
                        "a derived cells has a live base cells (otherwise it was derived from a deleted object)")
                    break
        tg = m._impl.tracegraph
        for node in list(tg.nodes):
            impl = node[0]
            ok = safe(lambda: impl.interface._impl is impl)
            if ok is not True:
                bad("no-residue-graph", {"node": safe(lambda: repr(node))[:80], "valid": ok},
                    "no dependency-graph node of a deleted object")
                break
            if id(impl.interface) not in now_ids and not hasattr(impl, "refmode"):
                bad("no-residue-graph", {"node": safe(lambda: repr(node))[:80]},
                    "every dependency-graph node belongs to a reachable object")
                break
        # the dependency listings of every held element mention only live objects
        for n, o in now.items():
            if isinstance(o, mx.core.cells.Cells):
                for key in list(o._impl.data):
                    for lst in (safe(lambda: o.preds(*key)), safe(lambda: o.succs(*key))):
                        if isinstance(lst, str):
                            bad("no-residue-preds", {"cells": n, "error": lst}, "listing works")
                            break
                        for nd in lst:
                            if safe(lambda: nd.obj._is_valid()) is not True:
                                bad("no-residue-preds", {"cells": n, "node": "deleted object"}, "live objects only")
                                break
    if not viols:
        edits = [op for op in hist if op.get("edit", True)]
        key = json.dumps(edits, sort_keys=True)
        if key not in _fresh_memo:
            if len(_fresh_memo) > 50000:
                _fresh_memo.clear()
            _fresh_memo[key] = fresh_probe(edits)
        fvals, fstatic = _fresh_memo[key]
        lstatic = sorted(k for k in now if "[" not in k)
        if lstatic != fstatic:
            bad("no-residue-containers", {"live_only": sorted(set(lstatic) - set(fstatic)),
                                          "fresh_only": sorted(set(fstatic) - set(lstatic))},
                "static objects == those of a fresh model that replayed the edits")
        else:
            canon_pre = None
            lvals = [observe(lambda e=e: eval(e, {"m": m})) for e in PROBE_EXPRS]
            if lvals != fvals:
                i = [k for k, (a, b) in enumerate(zip(lvals, fvals)) if a != b][0]
                bad("values", {"probe": PROBE_EXPRS[i], "live": lvals[i]}, {"fresh": fvals[i]})
    canon = session_canon(extra={"handles": len(H.items)}, with_graph=False) if not viols else {"v": 1}
    return canon, viols, digest(obs), {"dead": ndead}


def run_history_canon_first(hist):
    # canonical state must be taken before the value probes; recompute cheaply by replaying
    return run_history(hist)


ALPHABET = EDITS + EVALS


def work_items(tier, seed):
    # cold: every history of <= depth ops; warm: every evaluation done first, then every history of 2 (3) more ops
    # starting with an edit
    return [{"first": op} for op in ALPHABET] + [{"first": op, "warm": True} for op in EDITS]


def run_item(item, tier):
    dead = [0]

    def rh(h):
        c, v, d, info = run_history(h)
        dead[0] += info["dead"]
        return c, v, d, info
    depth = DEPTH[tier]
    if tier == "thorough" and item["first"].get("edit", True):
        depth -= 1      # thorough: depth 4 below the evaluation ops, depth 3 below the edits
    prefix = [item["first"]]
    if item.get("warm"):
        prefix = EVALS + prefix
        depth = len(prefix) + (1 if tier == "quick" else 2)
    res = bfs.explore(rh, lambda h, i: ALPHABET, depth, prefix=prefix, merge=False)
    res.samples = [{"history": h} for h in res.samples[:1]]
    out = res.as_item_result()
    out["counts"]["dead_handles_probed"] = dead[0]
    return out


def check_case(case):
    _fresh_memo.clear()
    return run_history(case["history"])[1]


def shrink_candidates(case):
    h = case["history"]
    for i in range(len(h)):
        yield {"history": h[:i] + h[i + 1:]}


def script(case):
    L = ["import modelx as mx", "m = mx.new_model('M')"] + SETUP
    L.append("handles = {}  # keep every object seen\n"
             "def harvest():\n"
             "    def rec(s):\n"
             "        handles.setdefault(id(s), s)\n"
             "        for c in s.cells.values(): handles.setdefault(id(c), c)\n"
             "        for ch in s.named_spaces.values(): rec(ch)\n"
             "        for it in s._impl.param_spaces.values(): rec(it.interface)\n"
             "    for s in m.spaces.values(): rec(s)\nharvest()")
    for op in case["history"]:
        L.append("try:\n    %s\nexcept Exception as e:\n    print('raised', type(e).__name__)\nharvest()" % op["code"])
    L.append("for h in handles.values():\n    try:\n        print(type(h).__name__, h.fullname)\n"
             "    except Exception as e:\n        print(type(h).__name__, 'raises', type(e).__name__)")
    return "\n".join(L)


def coverage(agg, tier):
    c = agg["counts"]
    return {"states": c.get("states", 0), "transitions": c.get("transitions", 0),
            "traces_validated_against_impl": c.get("transitions", 0), "depth": DEPTH[tier],
            "alphabet_size": len(ALPHABET), "exhaustive": True, "merged": c.get("merged", 0),
            "dead_handles_probed": c.get("dead_handles_probed", 0),
            "note": "histories are not merged (the handle table is part of the state)"}


def vacuity(agg, tier):
    if agg["counts"].get("dead_handles_probed", 0) < 1000:
        return "too few dead handles probed: %s" % agg["counts"]
