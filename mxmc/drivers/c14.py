"""C14 Saving never loses the last good save; failed saves and loads leave no residue.

Exhaustive fault-point enumeration on the real implementation:

  corpus of small models x {directory, zip} x save histories  gen1 ok, edit, gen2 ok, ..., gen_n FAULT
  (thorough: ... gen_n FAULT, gen_n+1 FAULT)  where the faulted save is first run fault-free in
  counting mode (pass 1: N fault points = every audited file-system operation below the scratch
  root, every Python-level write to a file below it, every pickler dump) and then re-run from the
  rebuilt prior state once per point k in 0..N-1 and per mode (raise before the operation; torn:
  partial effect, then the error), plus the environment answer EXDEV for os.rename inside
  shutil.move, plus loads (every operation of read_model as failure point; every file of a saved
  tree missing / truncated).

Oracle clauses (named; they key findings): last-good, ordered, zip-whole, session - see judge_save /
judge_load.  The disk clauses are only demanded when the faulted save started on a path holding a
complete save (the literal precondition of the property statement).
"""
import gc
import hashlib
import json
import os
import re
import shutil
import sys
import tempfile
import zipfile

import modelx as mx
from modelx.core.system import mxsys
from mxmc.session import reset_world, describe_model, digest, safe
from mxmc import c14_helpers as H
from mxmc.c14_helpers import CTL, TORN_KINDS

PROPERTY = "C14"
LEVEL = "fault_enumeration"
ASSUMPTIONS = [
    "fault points are the file-system operations CPython audits on absolute paths below the scratch root "
    "(open, os.mkdir/rename/remove/rmdir/scandir/listdir/walk/chmod/utime, shutil.move/rmtree/copyfile/copystat, "
    "tempfile.mkdtemp), every Python-level write() on a write handle below the root (io.open / builtins.open are "
    "wrapped by the harness), and dump()/load() of the four (un)pickler classes of serializer_6; an error inside a C "
    "library write is represented by the torn variant of the enclosing write",
    "operations that rmtree performs relative to a directory fd are represented by the before / torn variants of "
    "the enclosing shutil.rmtree",
    "injected errors are OSError(ENOSPC) for saves (additionally PermissionError at the points inside "
    "ziputil.copy_file, the only place where modelx distinguishes it) and OSError(EIO) for loads",
    "shutil._USE_CP_SENDFILE is switched off in the harness so that the copy inside shutil.move is visible as "
    "write(); ziputil's time.sleep is a no-op",
    "generations are identified byte-wise (per file / per zip member); a complete copy of the interrupted "
    "generation is recognised by byte-equality with a fault-free reference save of the same live model",
    "backups on (the default), serializer format 6, CPython 3.12, Linux",
]

MODELS_ALL = ["plain", "nested", "inputs", "itemspace", "pandas", "module"]
MODELS_QUICK = ["plain", "inputs", "pandas"]
MODELS_RANK = ["plain", "inputs", "nested", "itemspace", "pandas", "module"]     # simplest first (shrinking)
SAVE_ERR = "ENOSPC"
LOAD_ERR = "EIO"
NSLOTS = 5          # path, _BAK1 .. _BAK4 (a 4th backup must never exist)


# --------------------------------------------------------------------------------------
# scratch root

class Scratch:
    """One tempfile.mkdtemp() root per scenario; tempfile.tempdir points into it while modelx runs."""

    def __enter__(self):
        H.install()
        self.prev = tempfile.tempdir
        tempfile.tempdir = None
        CTL.mode = "off"
        self.root = os.path.realpath(tempfile.mkdtemp(prefix="mxc14_"))
        os.mkdir(os.path.join(self.root, "tmp"))
        tempfile.tempdir = os.path.join(self.root, "tmp")
        CTL.reset()
        CTL.root = self.root
        reset_world()
        return self

    def __exit__(self, *exc):
        CTL.mode = "off"
        CTL.reset()
        CTL.root = None
        try:
            reset_world()
        finally:
            tempfile.tempdir = self.prev
            shutil.rmtree(self.root, ignore_errors=True)
        return False


# --------------------------------------------------------------------------------------
# corpus

MODULE_SRC = "def fn(x):\n    return x + 1\n\n\nK = 3\n"


def build_model(mid, root):
    m = mx.new_model("M")
    s = m.new_space("S")
    s.new_cells("f", formula="lambda x: x + r")
    s.r = 0
    m.gen = 0
    if mid == "plain":
        s.new_cells("g", formula="lambda x: f(x) * 2")
    elif mid == "nested":
        m.doc = "model doc"
        s.doc = "space doc"
        t = s.new_space("T")
        t.new_cells("tc", formula="def tc(x):\n    \"\"\"cells doc\"\"\"\n    return x + q")
        t.q = 2
        b = m.new_space("B", bases=s)
        b.r = 5
        m.G = "g"
    elif mid == "inputs":
        s.f[0] = 10
        s.f[1] = "s"
        s.new_cells("k", formula="lambda: 1")
        s.k[()] = [1, 2]
        s.lst = [1, 2, 3]
        m.D = {"a": 1, "b": (2, 3)}
    elif mid == "itemspace":
        p = m.new_space("P", formula="lambda i: None")
        p.new_cells("c", formula="lambda: i")
        p.new_cells("d", formula="lambda x: c() + x")
        p[1].d[2] = 7
        p[2].c[()] = 9
    elif mid == "pandas":
        import pandas as pd
        s.new_pandas("df", "data/df.csv", data=pd.DataFrame({"a": [1, 2, 3], "b": [4.5, 5.5, 6.5]}),
                     file_type="csv")
        s.new_cells("h", formula="lambda i: df['a'][i]")
    elif mid == "module":
        src = os.path.join(root, "src")
        os.makedirs(src, exist_ok=True)
        with open(os.path.join(src, "mod.py"), "w") as fh:
            fh.write(MODULE_SRC)
        s.new_module("mod", "mods/mod.py", module=os.path.join(src, "mod.py"))
        s.new_cells("h", formula="lambda x: mod.fn(x)")
    else:
        raise ValueError(mid)
    return m


def edit(m, i):
    """The edit between generations: makes generation i distinguishable in bytes and in meaning."""
    m.gen = i
    m.S.r = i


def _strip(d):
    if isinstance(d, dict):
        return {k: _strip(v) for k, v in d.items() if k != "mode"}
    if isinstance(d, list):
        return [_strip(v) for v in d]
    return d


def desc(m):
    """Digest of the public description of a model (name and refmode excluded - C04 territory)."""
    return digest(_strip(describe_model(m, with_values=True, with_items=True, with_name=False)))


def do_save(m, path, container):
    if container == "zip":
        m.zip(path)
    else:
        m.write(path)


# --------------------------------------------------------------------------------------
# observing the disk

def _sha(b):
    return hashlib.sha1(b).hexdigest()[:16]


def tree_state(p):
    """None if p does not exist, else {"t", "digest", "files", "whole"} (byte-wise, per file/member)."""
    if not os.path.lexists(p):
        return None
    if os.path.isdir(p):
        files = []
        for d, dirs, fs in os.walk(p):
            dirs[:] = sorted(x for x in dirs if x != "__pycache__")
            for f in sorted(fs):
                full = os.path.join(d, f)
                with open(full, "rb") as fh:
                    files.append([os.path.relpath(full, p), _sha(fh.read())])
        files.sort()
        return {"t": "dir", "files": files, "digest": "d:" + digest(files), "whole": True}
    with open(p, "rb") as fh:
        raw = fh.read()
    st = {"t": "file", "size": len(raw), "files": [], "whole": False, "digest": "raw:" + _sha(raw)}
    try:
        if zipfile.is_zipfile(p):
            with zipfile.ZipFile(p) as z:
                names = z.namelist()
                bad = z.testzip()
                members = sorted([n, _sha(z.read(n))] for n in names)
            st["files"] = members
            if bad is None and len(set(names)) == len(names):
                st["whole"] = True
                st["digest"] = "z:" + digest(members)
            else:
                st["why"] = "bad member %r" % (bad,) if bad else "duplicate members"
    except Exception as e:
        st["why"] = "%s: %s" % (type(e).__name__, str(e)[:60])
    return st


def slot_path(base, j):
    return base if j == 0 else "%s_BAK%d" % (base, j)


def slots(base):
    return [tree_state(slot_path(base, j)) for j in range(NSLOTS)]


def is_partial_of(st, old):
    """st is what is left of old after some of its files were removed."""
    if st is None or old is None or st["t"] != "dir" or old["t"] != "dir":
        return False
    oldf = {tuple(x) for x in old["files"]}
    return all(tuple(x) in oldf for x in st["files"]) and len(st["files"]) < len(old["files"])


def show(st, known, R=None):
    """Short rendering of a slot state for reports."""
    if st is None:
        return None
    d = st["digest"]
    if d in known:
        return "gen%d" % known[d][0]
    if R is not None and d == R:
        return "gen-new(complete)"
    if st["t"] == "dir":
        return "partial-dir(%d files)" % len(st["files"])
    return "%s(%d bytes)" % ("zip-not-a-generation" if st["whole"] else "not-a-zip/corrupt", st.get("size", 0))


# --------------------------------------------------------------------------------------
# observing the session

def session_obs():
    models = {id(impl): name for name, impl in mxsys.models.items()}
    ios = []
    for (grp, path) in list(mxsys.iomanager.ios):
        gid = id(grp._impl) if grp is not None else None
        ios.append((gid, str(path)))
    return {"ser": mxsys.serializing is not None, "ioser": mxsys.iomanager.serializing is not None,
            "models": models, "ios": sorted(ios, key=repr)}


def probe_read(path):
    """Fault-free read of a copy under the name 'Probe'; returns desc digest or 'exc:<Type>'."""
    before = set(mxsys.models)
    r = None
    try:
        r = mx.read_model(path, name="Probe")
        return desc(r)
    except (KeyboardInterrupt, SystemExit):
        raise
    except BaseException as e:
        return "exc:" + type(e).__name__
    finally:
        if r is not None:
            safe(r.close)
        for name in set(mxsys.models) - before:
            safe(mxsys.models[name].interface.close)


def _exc_text(e):
    txt = str(e).replace(CTL.root or "\0", "")
    return "%s: %s" % (type(e).__name__, re.sub(r"\btmp[a-z0-9_]{8}\b", "<tmp>", txt)[:100])


def _point_sig(name):
    """'kind detail @where' -> 'kind @where' (operation kind, phase)."""
    kind = name.split(" ", 1)[0]
    where = name.rsplit(" @", 1)[1] if " @" in name else "?"
    return "%s @%s" % (kind, where)


# --------------------------------------------------------------------------------------
# save scenarios

def run_save(case, count_at=None):
    """Execute the save history of ``case``.

    ``count_at`` = index of the attempt to run fault-free in counting mode (later attempts are not
    run); None = run all attempts with their faults armed.  Returns a dict with violations, the
    list of points (counting mode), what fired, measured counters and an outcome digest.
    """
    faults = case.get("faults", [])
    n = case["gens"]
    cont = case["container"]
    out = {"viols": [], "fired": [], "points": None, "measured": {}, "outcome": None, "surfaced": 0,
           "post": None}

    def bad(clause, observed, expected, detail=None):
        out["viols"].append({"clause": clause, "case": case, "observed": observed, "expected": expected,
                             "detail": detail})

    def meas(k, v=1):
        out["measured"][k] = out["measured"].get(k, 0) + v

    with Scratch() as sc:
        root = sc.root
        m = build_model(case["model"], root)
        base = os.path.join(root, "mdl.zip" if cont == "zip" else "mdl")
        known = {}          # digest -> (recency, desc digest)  completed generations
        rec = 0
        for i in range(1, n):
            edit(m, i)
            do_save(m, base, cont)
            st = tree_state(base)
            rec += 1
            known[st["digest"]] = (rec, desc(m))
        nattempts = (count_at + 1) if count_at is not None else max(1, len(faults))
        any_failed = False
        shapes = []
        for j in range(nattempts):
            edit(m, n + j)
            live = desc(m)
            pre = slots(base)
            sess0 = session_obs()
            CTL.reset()
            CTL.env = case.get("env")
            counting = (count_at == j)
            if counting:
                CTL.mode = "count"
            else:
                f = faults[j] if j < len(faults) else None
                if f is not None:
                    CTL.arm = {f["k"]: {"mode": f["mode"], "err": f.get("err", SAVE_ERR)}}
                CTL.mode = "arm"
            exc = None
            try:
                do_save(m, base, cont)
            except (KeyboardInterrupt, SystemExit):
                raise
            except BaseException as e:
                exc = _exc_text(e)
            finally:
                CTL.mode = "off"
            e = None
            fired = list(CTL.fired)
            if counting:
                out["points"] = list(CTL.log)
            out["fired"].extend(fired)
            meas("env_answers", CTL.env_answers)
            gc.collect(1)
            post = slots(base)
            sess1 = session_obs()
            if exc is not None:
                any_failed = True
                meas("saves_failed")
                if fired:
                    out["surfaced"] += 1
            elif fired:
                meas("save_ok_despite_fault")

            # reference save of the live model (lazy): what a complete copy of this generation is
            Rbox = []
            Rst = []

            def R():
                if not Rbox:
                    refp = os.path.join(root, "ref%d" % j, os.path.basename(base))
                    os.makedirs(os.path.dirname(refp))
                    try:
                        do_save(m, refp, cont)
                        Rst.append(tree_state(refp))
                        Rbox.append(Rst[0]["digest"])
                    except (KeyboardInterrupt, SystemExit):
                        raise
                    except BaseException as e2:
                        Rbox.append(None)
                        if exc is not None:
                            bad("session", "a fault-free save to a fresh path after the failed save raised " +
                                _exc_text(e2), "later saves behave normally")
                return Rbox[0]

            def sh(sts):
                r = Rbox[0] if Rbox else None
                return [show(x, known, r) for x in sts]

            L = pre[0]["digest"] if pre[0] else None
            pre_complete = L is not None and L in known
            junk_pre = any(pre[s] is not None and pre[s]["digest"] not in known for s in range(1, NSLOTS))
            new_complete = post[0] is not None and post[0]["digest"] not in known and post[0]["digest"] == R()

            def complete_by_meaning():
                """Fallback before a disk clause is reported: <path> has exactly the files of a complete copy and
                reads back as the live model (guards against byte-level differences that are not damage)."""
                st0 = post[0]
                if st0 is None or not st0["whole"] or not Rst:
                    return False
                if sorted(a for a, _ in st0["files"]) != sorted(a for a, _ in Rst[0]["files"]):
                    return False
                ok = probe_read(base) == live
                if ok:
                    meas("complete_by_meaning_only")
                return ok

            # ---- session clause (unconditional): a failed save leaves the session usable
            if exc is not None:
                if sess1["ser"] or sess1["ioser"]:
                    bad("session", {"mxsys.serializing": sess1["ser"], "iomanager.serializing": sess1["ioser"]},
                        "both None after a failed save", exc)
                if sess1["models"] != sess0["models"]:
                    bad("session", sorted(sess1["models"].values()), sorted(sess0["models"].values()),
                        "registry changed by a failed save: " + exc)
                if sess1["ios"] != sess0["ios"]:
                    # residue, but not something the statement promises: measured, not judged
                    meas("ios_changed_by_failed_save")

            if counting and exc is not None:
                bad("no-fault", exc, "a fault-free save succeeds")
            if counting and exc is None and not new_complete:
                raise AssertionError("harness: fault-free save is not byte-equal to the reference save (%s %s)"
                                     % (case["model"], cont))

            # ---- disk clauses: only when the save started on a path holding a complete save
            if pre_complete:
                meas("judged_disk")
                Lrec, Ldesc = known[L]
                at = None
                if post[0] is not None and post[0]["digest"] == L:
                    at = 0
                elif post[1] is not None and post[1]["digest"] == L:
                    at = 1
                # last-good: the most recent completely written copy (the previous generation, or the new one
                # if it was written completely) is intact at <path> or <path>_BAK1
                if at is None and not new_complete and not complete_by_meaning():
                    bad("last-good", {"slots": sh(post), "error": exc},
                        "gen%d intact at <path> or <path>_BAK1 (or a complete copy of the new generation at "
                        "<path>)" % Lrec, {"before": sh(pre)})
                elif at is not None and exc is not None:
                    got = probe_read(slot_path(base, at))
                    if got != Ldesc:
                        bad("last-good", {"read_model of surviving copy": got, "slot": at},
                            "description-equal to generation %d" % Lrec, exc)
                if new_complete and exc is not None:
                    meas("failed_but_new_generation_complete")
                # ordered
                if post[4] is not None:
                    bad("ordered", {"slots": sh(post)}, "at most 3 backups", {"before": sh(pre), "error": exc})
                seq = []
                for s in range(0, 4):
                    st = post[s]
                    if st is None:
                        continue
                    if st["digest"] in known:
                        seq.append(known[st["digest"]][0])
                    elif s == 0 and new_complete:
                        seq.append(10 ** 6)
                if any(a <= b for a, b in zip(seq, seq[1:])):
                    bad("ordered", {"slots": sh(post)}, "generations in strictly decreasing recency over "
                        "<path>, _BAK1.._BAK3", {"before": sh(pre), "error": exc})
                if not junk_pre:
                    if exc is None:
                        for s in range(1, 4):
                            want = pre[s - 1]["digest"] if pre[s - 1] else None
                            got = post[s]["digest"] if post[s] else None
                            if want != got:
                                bad("ordered", {"slots": sh(post)}, "after a successful save _BAK%d holds what "
                                    "slot %d held before" % (s, s - 1), {"before": sh(pre)})
                                break
                    else:
                        for s in range(1, 4):
                            st = post[s]
                            if st is None or st["digest"] in known:
                                continue
                            if s == 3 and is_partial_of(st, pre[3]):
                                meas("oldest_slot_half_removed")
                                continue
                            bad("ordered", {"slots": sh(post)}, "backup slots hold complete generations (a "
                                "half-removed slot only in _BAK3)", {"before": sh(pre), "error": exc})
                            break
                else:
                    meas("junk_before_save")
                # zip-whole
                if cont == "zip" and post[0] is not None:
                    st = post[0]
                    if not (st["whole"] and (st["digest"] in known or new_complete)) and not complete_by_meaning():
                        diff = None
                        if Rst and st["files"]:
                            have = {a: b for a, b in st["files"]}
                            ref = {a: b for a, b in Rst[0]["files"]}
                            diff = {"missing members": sorted(set(ref) - set(have)),
                                    "damaged members": sorted(a for a in have if a in ref and have[a] != ref[a]),
                                    "members": len(st["files"])}
                        bad("zip-whole", {"<path>": show(st, known, R()), "why": st.get("why"), "vs complete": diff,
                                          "slots": sh(post), "error": exc},
                            "the zip destination is absent or a complete archive of a completed generation",
                            {"before": sh(pre)})
                if cont == "dir" and exc is None and not new_complete:
                    meas("dir_save_ok_but_incomplete")
            else:
                meas("unjudged_disk_no_precondition")
                if cont == "zip" and post[0] is not None and not (post[0]["whole"] and (post[0]["digest"] in known
                                                                                       or new_complete)):
                    meas("partial_zip_without_precondition")
                if exc is not None:
                    lost = [r_ for d_, (r_, _) in known.items()
                            if not any(p_ is not None and p_["digest"] == d_ for p_ in post[:2])]
                    if known and len(lost) == len(known):
                        meas("no_generation_at_path_or_bak1_after_unjudged_failure")

            if new_complete or (exc is None and post[0] is not None and post[0]["digest"] == R()):
                rec += 1
                known[post[0]["digest"]] = (rec, live)
            shapes.append([exc is not None, sh(post)])
            out["post"] = {"error": exc, "slots": sh(post)}

        # ---- follow-up (session clause): a later fault-free save and load behave normally
        if any_failed:
            pre_f = slots(base)
            try:
                do_save(m, base, cont)
            except (KeyboardInterrupt, SystemExit):
                raise
            except BaseException as e3:
                bad("session", "the next fault-free save to the same path raised " + _exc_text(e3),
                    "later saves behave normally")
            else:
                got = probe_read(base)
                want = desc(m)
                if got != want:
                    bad("session", {"read_model after the next fault-free save": got},
                        "description-equal to the live model (%s)" % want)
                # ordered (follow-up): the successful save after the failure keeps the complete generations that
                # were on disk before it, most recent first, as _BAK1.._BAK3 (judged when nothing but complete
                # generations was on disk, i.e. no half-written directory at <path>)
                if all(s is None or s["digest"] in known for s in pre_f[:NSLOTS]):
                    gens = sorted({s["digest"] for s in pre_f[:NSLOTS] if s is not None}, key=lambda d: -known[d][0])
                    post_f = slots(base)
                    kept = [post_f[s]["digest"] if post_f[s] else None for s in range(1, 4)]
                    if kept[:len(gens[:3])] != gens[:3]:
                        bad("ordered", {"slots after the fault-free save that followed the failure":
                                        [show(x, known, None) for x in post_f],
                                        "slots before it": [show(x, known, None) for x in pre_f]},
                            "the complete generations kept before it, most recent first, in _BAK1.._BAK3")
                    else:
                        meas("followup_backups_judged")
            s2 = session_obs()
            if s2["ser"] or s2["ioser"]:
                bad("session", "serializing flag set after the follow-up save", "None")
        out["outcome"] = digest(shapes)
    return out


# --------------------------------------------------------------------------------------
# load scenarios (faults and corrupted trees)

def list_corruptions(case):
    """Every file of the saved tree x {missing, truncated} (+ the archive itself truncated)."""
    with Scratch() as sc:
        m = build_model(case["model"], sc.root)
        edit(m, 1)
        base = os.path.join(sc.root, "mdl.zip" if case["container"] == "zip" else "mdl")
        do_save(m, base, case["container"])
        st = tree_state(base)
        out = []
        for f, _ in st["files"]:
            out.append({"file": f, "how": "missing"})
            out.append({"file": f, "how": "truncated"})
        if case["container"] == "zip":
            out.append({"file": "<archive>", "how": "truncated"})
        return out


def apply_corruption(base, cont, c):
    if cont == "dir":
        p = os.path.join(base, c["file"])
        if c["how"] == "missing":
            os.remove(p)
        else:
            with open(p, "rb") as fh:
                b = fh.read()
            with open(p, "wb") as fh:
                fh.write(b[:len(b) // 2])
        return
    if c["file"] == "<archive>":
        with open(base, "rb") as fh:
            b = fh.read()
        with open(base, "wb") as fh:
            fh.write(b[:len(b) // 2])
        return
    with zipfile.ZipFile(base) as z:
        members = [(i, z.read(i.filename)) for i in z.infolist()]
    os.remove(base)
    with zipfile.ZipFile(base, "w", compression=zipfile.ZIP_DEFLATED) as z:
        for i, b in members:
            if i.filename == c["file"]:
                if c["how"] == "missing":
                    continue
                b = b[:len(b) // 2]
            z.writestr(i.filename, b)


def run_load(case, count=False):
    cont = case["container"]
    faults = case.get("faults", [])
    out = {"viols": [], "fired": [], "points": None, "measured": {}, "outcome": None, "surfaced": 0,
           "post": None}

    def bad(clause, observed, expected, detail=None):
        out["viols"].append({"clause": clause, "case": case, "observed": observed, "expected": expected,
                             "detail": detail})

    def meas(k, v=1):
        out["measured"][k] = out["measured"].get(k, 0) + v

    with Scratch() as sc:
        root = sc.root
        m = build_model(case["model"], root)
        edit(m, 1)
        base = os.path.join(root, "mdl.zip" if cont == "zip" else "mdl")
        good = os.path.join(root, "good", os.path.basename(base))
        os.makedirs(os.path.dirname(good))
        do_save(m, base, cont)
        do_save(m, good, cont)
        D = desc(m)
        if case.get("reg") != "same":
            m.close()
            m = None
        if case.get("corrupt"):
            apply_corruption(base, cont, case["corrupt"])
        sess0 = session_obs()
        CTL.reset()
        if count:
            CTL.mode = "count"
        else:
            if faults:
                f = faults[0]
                CTL.arm = {f["k"]: {"mode": f["mode"], "err": f.get("err", LOAD_ERR)}}
            CTL.mode = "arm"
        exc = None
        r = None
        try:
            r = mx.read_model(base)
        except (KeyboardInterrupt, SystemExit):
            raise
        except BaseException as e:
            exc = _exc_text(e)
        finally:
            CTL.mode = "off"
        e = None
        fired = list(CTL.fired)
        out["fired"] = fired
        if count:
            out["points"] = list(CTL.log)
        gc.collect(1)
        sess1 = session_obs()
        if exc is None:
            got = safe(lambda: desc(r))
            if count and got != D:
                raise AssertionError("harness: fault-free round trip is not description-equal (%s %s)"
                                     % (case["model"], cont))
            if fired or case.get("corrupt"):
                meas("load_ok_despite_fault")
                if got != D:
                    meas("load_ok_but_different")
            out["post"] = {"error": None}
            out["outcome"] = digest(["ok", got == D])
        else:
            meas("loads_failed")
            out["surfaced"] = 1
            out["post"] = {"error": exc, "models": sorted(sess1["models"].values())}
            if count:
                bad("no-fault", exc, "a fault-free load succeeds")
            # session: flags
            if sess1["ser"] or sess1["ioser"]:
                bad("session", {"mxsys.serializing": sess1["ser"], "iomanager.serializing": sess1["ioser"]},
                    "both None after a failed load", exc)
            # session: registry = the models held before (a same-named one may carry a backup suffix)
            extra = [nm for i_, nm in sess1["models"].items() if i_ not in sess0["models"]]
            dropped = [nm for i_, nm in sess0["models"].items() if i_ not in sess1["models"]]
            renamed = [(sess0["models"][i_], nm) for i_, nm in sess1["models"].items()
                       if i_ in sess0["models"] and sess0["models"][i_] != nm]
            if extra:
                bad("session", {"registered after the failed load": sorted(sess1["models"].values())},
                    {"registered before": sorted(sess0["models"].values())},
                    "half-loaded model stays registered: " + exc)
            if dropped:
                bad("session", {"dropped": dropped}, "models registered before the failed load are kept", exc)
            for old, new in renamed:
                if not re.fullmatch(re.escape(old) + r"_BAK\d+", new):
                    bad("session", {"renamed": [old, new]}, "at most a backup suffix", exc)
            if renamed:
                meas("same_named_model_left_renamed")
            if sess1["ios"] != sess0["ios"]:
                # a leaked IO object of the closed half-loaded model is residue, but the statement only promises
                # "no half-loaded model stays registered and later saves and loads behave normally" (both are
                # judged below): measured and reported in the evidence, not judged
                meas("ios_leaked_by_failed_load")
                out["leak"] = {"ios after": [x[1] for x in sess1["ios"]], "ios before": [x[1] for x in sess0["ios"]]}
            # session: a later load and save behave normally
            r2 = None
            try:
                r2 = mx.read_model(good)
                got = desc(r2)
                if got != D:
                    bad("session", {"later fault-free load": got}, "description-equal to the saved model (%s)" % D)
                else:
                    p3 = os.path.join(root, "again", os.path.basename(base))
                    os.makedirs(os.path.dirname(p3))
                    do_save(r2, p3, cont)
                    got3 = probe_read(p3)
                    if got3 != D:
                        bad("session", {"load of a later save": got3}, "description-equal (%s)" % D)
            except (KeyboardInterrupt, SystemExit):
                raise
            except BaseException as e4:
                bad("session", "a later fault-free load/save raised " + _exc_text(e4),
                    "later saves and loads behave normally", exc)
            out["outcome"] = digest(["failed", exc.split(":")[0], bool(renamed)])
    return out


# --------------------------------------------------------------------------------------
# fault addressing: a fault is addressed by the name of its operation and its occurrence number
# among equally named operations (k is the index that this resolves to in the unchanged scenario)

_COUNT_CACHE = {}


def scenario_key(case, upto):
    return json.dumps([case["kind"], case["model"], case["container"], case.get("gens"), case.get("env"),
                       case.get("reg"), case.get("faults", [])[:upto]], sort_keys=True)


def count_points(case, j=0):
    """Names of the fault points of attempt j of the scenario (faults before j armed as given)."""
    key = scenario_key(case, j) + "#%d" % j
    if key not in _COUNT_CACHE:
        if case["kind"] == "save":
            res = run_save(dict(case, faults=case.get("faults", [])[:j]), count_at=j)
        else:
            res = run_load(dict(case, faults=[]), count=True)
        if len(_COUNT_CACHE) > 64:
            _COUNT_CACHE.clear()
        _COUNT_CACHE[key] = res
    return _COUNT_CACHE[key]


def address(points, k):
    name = points[k]
    return {"op": name, "occ": points[:k].count(name)}


def locate(points, f):
    """Index of the fault f in this scenario, or None."""
    if "op" in f:
        occ = f.get("occ", 0)
        for i, nm in enumerate(points):
            if nm == f["op"]:
                if occ == 0:
                    return i
                occ -= 1
        return None
    k = f.get("k")
    return k if isinstance(k, int) and 0 <= k < len(points) else None


def normalise(case):
    """Resolve every fault to its index in the scenario as it is now; None if it does not exist."""
    if case["kind"] == "corrupt" or not case.get("faults"):
        return dict(case)
    cur = dict(case, faults=[])
    for j, f in enumerate(case["faults"]):
        pts = count_points(cur, j)["points"]
        if pts is None:
            return None
        k = locate(pts, f)
        if k is None:
            return None
        g = {"k": k, "mode": f.get("mode", "before"), "err": f.get("err", SAVE_ERR if case["kind"] == "save"
                                                                   else LOAD_ERR)}
        g.update(address(pts, k))
        kind = g["op"].split(" ", 1)[0]
        if g["mode"] == "torn" and kind not in TORN_KINDS:
            return None
        cur = dict(cur, faults=cur["faults"] + [g])
    return cur


def run_case(case):
    if case["kind"] == "save":
        return run_save(case)
    return run_load(case)


def check_case(case):
    c = normalise(case)
    if c is None:
        return []
    res = run_case(c)
    for v in res["viols"]:
        v["case"] = c
    return res["viols"]


def shrink_candidates(case):
    """Smaller scenarios, always re-addressed (so that a candidate is in canonical form)."""
    out = []
    fs = case.get("faults", [])
    # the smallest scenario first: one step if the finding does not depend on model / history / variant
    if len(fs) == 1:
        f0 = dict(fs[0], mode="before", err=(SAVE_ERR if case["kind"] == "save" else LOAD_ERR), occ=0)
        small = dict(case, model="plain", faults=[f0])
        if case["kind"] == "save":
            small["gens"] = min(case["gens"], 2)
            out.append(dict(small, env=None))
        else:
            out.append(dict(small, reg="none"))
        out.append(small)
    if len(fs) > 1:
        out.append(dict(case, faults=fs[1:]))
        out.append(dict(case, faults=fs[:1]))
    rank = MODELS_RANK.index(case["model"])
    for simpler in MODELS_RANK[:rank]:
        out.append(dict(case, model=simpler))
        out.append(dict(case, model=simpler, faults=[dict(f, occ=0) for f in fs]))
    if case["kind"] == "save":
        if case["gens"] > 2:
            out.append(dict(case, gens=2))
        if case["gens"] > 1:
            out.append(dict(case, gens=case["gens"] - 1))
        if case.get("env"):
            out.append(dict(case, env=None))
    else:
        if case.get("reg") == "same":
            out.append(dict(case, reg="none"))
    for i, f in enumerate(fs):
        if f.get("mode") == "torn":
            out.append(dict(case, faults=fs[:i] + [dict(f, mode="before")] + fs[i + 1:]))
        if f.get("err") == "EACCES":
            out.append(dict(case, faults=fs[:i] + [dict(f, err="ENOSPC")] + fs[i + 1:]))
        if f.get("occ", 0) > 0:
            out.append(dict(case, faults=fs[:i] + [dict(f, occ=0)] + fs[i + 1:]))
    seen = set()
    for c in out:
        c = dict(c, faults=[{k: v for k, v in f.items() if k != "k"} for f in c.get("faults", [])])
        try:
            c2 = normalise(c)
        except Exception:
            continue
        if c2 is None:
            continue
        key = json.dumps(c2, sort_keys=True)
        if key in seen or key == json.dumps(case, sort_keys=True):
            continue
        seen.add(key)
        yield c2


# --------------------------------------------------------------------------------------
# enumeration

def _variants(name, kind_of_scenario):
    """(mode, err) variants tried at a point."""
    kind = name.split(" ", 1)[0]
    if kind_of_scenario != "save":
        return [("before", LOAD_ERR)]
    out = [("before", SAVE_ERR)]
    if kind in TORN_KINDS:
        out.append(("torn", SAVE_ERR))
    if ">copy_file" in name or "@copy_file" in name:
        out.append(("before", "EACCES"))
        if kind in TORN_KINDS:
            out.append(("torn", "EACCES"))
    return out


# work items are cut so that each costs roughly the same (about 40-100 scenario runs)
_ZIP_CHUNKS = {"plain": 3, "nested": 6, "inputs": 7, "itemspace": 4, "pandas": 10, "module": 10}
_SAVE2_DIR_CHUNKS = {"plain": 6, "nested": 16, "inputs": 24, "itemspace": 10, "pandas": 32, "module": 24}


def work_items(tier, seed):
    heavy, light = [], []
    models = MODELS_QUICK if tier == "quick" else MODELS_ALL
    gens = [1, 2, 5] if tier == "quick" else [1, 2, 3, 4, 5]
    for mid in models:
        for cont in ("dir", "zip"):
            for n in gens:
                envs = [None, "exdev"] if cont == "zip" else [None]
                for env in envs:
                    if tier == "quick" and env == "exdev" and n not in (1, 2):
                        continue
                    if tier == "quick" and n == 5 and cont == "zip" and mid != "plain":
                        continue
                    nch = _ZIP_CHUNKS[mid] if cont == "zip" else 1
                    for ch in range(nch):
                        (heavy if cont == "zip" else light).append(
                            {"kind": "save", "model": mid, "container": cont, "gens": n, "env": env,
                             "chunk": [ch, nch]})
            for reg in ("none", "same"):
                light.append({"kind": "load", "model": mid, "container": cont, "reg": reg, "chunk": [0, 1]})
                light.append({"kind": "corrupt", "model": mid, "container": cont, "reg": reg, "chunk": [0, 1]})
    if tier == "thorough":
        # two faults per history: gen1 ok, gen2 FAULT, gen3 FAULT
        for mid in MODELS_ALL:
            nch = _SAVE2_DIR_CHUNKS[mid]
            for ch in range(nch):
                heavy.append({"kind": "save2", "model": mid, "container": "dir", "gens": 2, "env": None,
                              "chunk": [ch, nch], "sub": [0, 1]})
        for ch in range(32):
            for r in range(4):
                heavy.append({"kind": "save2", "model": "plain", "container": "zip", "gens": 2, "env": None,
                              "chunk": [ch, 32], "sub": [r, 4]})
    # spread the light items evenly between the heavy ones (the runner hands out consecutive batches)
    items = []
    step = max(1, len(heavy) // max(1, len(light)))
    li = 0
    for i, it in enumerate(heavy):
        items.append(it)
        if i % step == step - 1 and li < len(light):
            items.append(light[li])
            li += 1
    items.extend(light[li:])
    return items


def _scen_name(item):
    return "/".join(str(x) for x in (item["kind"], item["model"], item["container"], item.get("gens", "-"),
                                     item.get("env") or "-", item.get("reg") or "-"))


class _Acc:
    def __init__(self):
        self.counts = {}
        self.outcomes = set()
        self.viols = []
        self.samples = []
        self.extra = {}
        self.seen_sig = set()

    def add(self, case, res, want_sample=False):
        c = self.counts
        c["runs"] = c.get("runs", 0) + 1
        if res["fired"]:
            c["fired"] = c.get("fired", 0) + 1
        if res["surfaced"]:
            c["surfaced"] = c.get("surfaced", 0) + 1
            for (_, name, mode, err) in res["fired"]:
                self.outcomes.add("F:%s:%s %s" % (case["kind"], mode, _point_sig(name)))
        for k, v in res["measured"].items():
            c[k] = c.get(k, 0) + v
        if res["outcome"]:
            self.outcomes.add("O:" + res["outcome"])
        for v in res["viols"]:
            fs = v["case"].get("faults", [])
            sig = (v["clause"], v["case"]["kind"], v["case"]["container"], v["case"].get("env"),
                   tuple((_point_sig(f["op"]), f["mode"], f["err"]) for f in fs),
                   json.dumps(v["case"].get("corrupt")))
            c["violating_runs"] = c.get("violating_runs", 0) + 1
            if sig in self.seen_sig:
                continue
            self.seen_sig.add(sig)
            self.viols.append(v)
        if want_sample and len(self.samples) < 2:
            self.samples.append({"case": case, "observed": res["post"],
                                 "fired": [list(x) for x in res["fired"]]})

    def result(self):
        return {"counts": self.counts, "outcomes": sorted(self.outcomes), "violations": self.viols,
                "samples": self.samples, "extra": self.extra}


def run_item(item, tier):
    acc = _Acc()
    ch, nch = item["chunk"]
    kind = item["kind"]
    base = {k: v for k, v in item.items() if k not in ("chunk", "sub")}
    sub_r, sub_n = item.get("sub", [0, 1])
    if kind == "corrupt":
        base["kind"] = "load"
        cors = list_corruptions(base)
        acc.extra["points:" + _scen_name(item)] = len(cors)
        for c in cors:
            case = dict(base, corrupt=c, faults=[])
            res = run_load(case)
            res["fired"] = [(0, "corrupt %s @%s" % (c["file"], c["how"]), c["how"], "-")] if res["surfaced"] else []
            acc.add(case, res, want_sample=(c["how"] == "truncated"))
        return acc.result()
    if kind in ("save", "load"):
        base["faults"] = []
        cnt = count_points(base, 0)
        pts = cnt["points"]
        if ch == 0:
            acc.add(base, cnt)
            acc.extra["points:" + _scen_name(item)] = len(pts)
            acc.counts["points_total"] = len(pts)
        for k in range(len(pts)):
            if k % nch != ch:
                continue
            for mode, err in _variants(pts[k], kind):
                f = {"k": k, "mode": mode, "err": err}
                f.update(address(pts, k))
                case = dict(base, faults=[f])
                res = run_case(case)
                if not res["fired"]:
                    raise AssertionError("harness: armed fault did not fire: %r" % (case,))
                if res["fired"][0][1] != pts[k]:
                    raise AssertionError("harness: nondeterministic numbering %r vs %r" % (res["fired"][0], pts[k]))
                acc.add(case, res, want_sample=(k * 2 >= len(pts)))
        return acc.result()
    if kind == "save2":
        base["kind"] = "save"
        base["faults"] = []
        pts1 = count_points(base, 0)["points"]
        firsts = []
        for k in range(len(pts1)):
            for mode, err in _variants(pts1[k], "save"):
                firsts.append((k, mode, err))
        if ch == 0 and sub_r == 0:
            acc.extra["first_faults:" + _scen_name(item)] = len(firsts)
        n2max = 0
        for idx, (k, mode, err) in enumerate(firsts):
            if idx % nch != ch:
                continue
            f1 = {"k": k, "mode": mode, "err": err}
            f1.update(address(pts1, k))
            c1 = dict(base, faults=[f1])
            pts2 = count_points(c1, 1)["points"]
            n2max = max(n2max, len(pts2))
            if sub_r == 0:
                acc.counts["points_total"] = acc.counts.get("points_total", 0) + len(pts2)
            for k2 in range(len(pts2)):
                if k2 % sub_n != sub_r:
                    continue
                for mode2, err2 in _variants(pts2[k2], "save"):
                    f2 = {"k": k2, "mode": mode2, "err": err2}
                    f2.update(address(pts2, k2))
                    case = dict(base, faults=[f1, f2])
                    res = run_save(case)
                    if len(res["fired"]) != 2:
                        raise AssertionError("harness: armed faults did not both fire: %r" % (case,))
                    acc.add(case, res, want_sample=(k2 == len(pts2) - 1))
        acc.extra["points2_max:" + _scen_name(item)] = n2max
        return acc.result()
    raise ValueError(kind)


# --------------------------------------------------------------------------------------
# evidence

def coverage(agg, tier):
    c = agg["counts"]
    fired_sigs = sorted(o[2:] for o in agg["outcomes"] if o.startswith("F:"))
    pts = {k[len("points:"):]: v for k, v in agg.get("extra", {}).items() if k.startswith("points:")}
    return {
        "evaluations": c.get("runs", 0),
        "distinct_nontrivial": len(fired_sigs),
        "rule": "for every scenario (model x container x number of earlier good saves x environment {plain, "
                "EXDEV on the rename inside shutil.move}; loads: x {no, same-named} registered model) the "
                "operation under test is run once fault-free in counting mode (N points), then re-run from the "
                "rebuilt prior state once per point k in 0..N-1 and per variant (raise before the operation; torn "
                "for write/dump/rmtree; PermissionError additionally inside ziputil.copy_file); corrupted trees: "
                "every file missing / truncated; thorough adds two-fault histories (every first fault x every "
                "point of the next save). distinct_nontrivial = number of distinct (scenario kind, variant, "
                "operation kind, code location) at which an injected fault fired AND the error surfaced from "
                "the save/load (measured).",
        "exhaustive": True,
        "bounds": {
            "models": MODELS_QUICK if tier == "quick" else MODELS_ALL,
            "containers": ["dir", "zip"],
            "good_saves_before_the_faulted_one": "0,1 (+4 for the plain model); EXDEV environment with 0,1" if tier == "quick"
            else "0..4, each also in the EXDEV environment (zip)",
            "faults_per_history": 1 if tier == "quick" else "1 everywhere; 2 (gen1 ok, gen2 FAULT, gen3 FAULT) for all models "
            "in directories and for the plain model in zip",
            "loads": "every point of read_model x {no, same-named} registered model; every file missing/truncated",
        },
        "fault_points_per_scenario": pts,
        "faults_fired": c.get("fired", 0),
        "faults_surfaced": c.get("surfaced", 0),
        "fired_point_kinds": fired_sigs[:400],
        "disk_clauses_judged_runs": c.get("judged_disk", 0),
        "measured_not_judged": {k: c.get(k, 0) for k in (
            "unjudged_disk_no_precondition", "partial_zip_without_precondition", "junk_before_save",
            "no_generation_at_path_or_bak1_after_unjudged_failure", "failed_but_new_generation_complete",
            "save_ok_despite_fault", "dir_save_ok_but_incomplete", "oldest_slot_half_removed",
            "load_ok_despite_fault", "load_ok_but_different", "same_named_model_left_renamed",
            "ios_leaked_by_failed_load", "ios_changed_by_failed_save")},
        "environment_answers_exdev": c.get("env_answers", 0),
    }


def vacuity(agg, tier):
    c = agg["counts"]
    if c.get("fired", 0) < 100:
        return "fewer than 100 injected faults fired"
    if c.get("surfaced", 0) < 100:
        return "fewer than 100 injected faults surfaced as a failed save/load"
    if c.get("judged_disk", 0) < 50:
        return "the disk clauses were judged on fewer than 50 runs"
    if c.get("env_answers", 0) < 1:
        return "the EXDEV environment answer was never given"
    if c.get("loads_failed", 0) < 10 or c.get("saves_failed", 0) < 10:
        return "too few failed loads / saves"
    if len([o for o in agg["outcomes"] if o.startswith("F:")]) < 2:
        return "fewer than 2 distinct fault point kinds"
    return None


# --------------------------------------------------------------------------------------
# stand-alone reproduction script

_BUILD_SRC = {
    "plain": ["s.new_cells('g', formula='lambda x: f(x) * 2')"],
    "nested": ["m.doc = 'model doc'; s.doc = 'space doc'", "t = s.new_space('T')",
               "t.new_cells('tc', formula='def tc(x):\\n    \"\"\"cells doc\"\"\"\\n    return x + q'); t.q = 2",
               "b = m.new_space('B', bases=s); b.r = 5; m.G = 'g'"],
    "inputs": ["s.f[0] = 10; s.f[1] = 's'", "s.new_cells('k', formula='lambda: 1'); s.k[()] = [1, 2]",
               "s.lst = [1, 2, 3]; m.D = {'a': 1, 'b': (2, 3)}"],
    "itemspace": ["p = m.new_space('P', formula='lambda i: None')", "p.new_cells('c', formula='lambda: i')",
                  "p.new_cells('d', formula='lambda x: c() + x')", "p[1].d[2] = 7; p[2].c[()] = 9"],
    "pandas": ["import pandas as pd",
               "s.new_pandas('df', 'data/df.csv', data=pd.DataFrame({'a': [1, 2, 3], 'b': [4.5, 5.5, 6.5]}), "
               "file_type='csv')", "s.new_cells('h', formula=\"lambda i: df['a'][i]\")"],
    "module": ["os.makedirs(os.path.join(root, 'src'))",
               "open(os.path.join(root, 'src', 'mod.py'), 'w').write(%r)" % MODULE_SRC,
               "s.new_module('mod', 'mods/mod.py', module=os.path.join(root, 'src', 'mod.py'))",
               "s.new_cells('h', formula='lambda x: mod.fn(x)')"],
}

_PRELUDE = r'''
# ---- tiny fault injector (monkeypatch only; nothing in modelx is changed) -----------------------
import builtins, errno, io, re, sys
FAULT = {}        # kind, detail, occ, mode, errno ; empty = disarmed
def _rel(p):
    p = os.fspath(p); p = p.decode() if isinstance(p, bytes) else p
    if p == root or p.startswith(root + "/"): p = p[len(root):].lstrip("/") or "."
    return re.sub(r"\btmp[a-z0-9_]{8}\b", "<tmp>", p)
def _err(what):
    cls = PermissionError if FAULT["errno"] == errno.EACCES else OSError
    return cls(FAULT["errno"], "injected " + os.strerror(FAULT["errno"]), what)
def _hit(kind, detail):
    if FAULT and FAULT["kind"] == kind and FAULT["detail"] == detail:
        FAULT["occ"] -= 1
        return FAULT["occ"] < 0
    return False
_PATHS = {"os.rename": 2, "shutil.move": 2, "shutil.copyfile": 2, "shutil.copystat": 2, "shutil.copymode": 2}
def _hook(ev, args):
    if not FAULT or not args: return
    if EXDEV and ev == "os.rename" and _rel(args[0]).startswith("tmp/<tmp>/") and not _rel(args[1]).startswith("tmp/"):
        raise OSError(errno.EXDEV, "Invalid cross-device link")     # environment: temp dir on another device
    kind = "open(%s)" % (args[1] if isinstance(args[1], str) else "fd") if ev == "open" else ev
    if kind != FAULT["kind"]: return
    try: detail = "->".join(_rel(a) for a in args[:_PATHS.get(ev, 1)])
    except TypeError: return
    if _hit(kind, detail):
        mode = FAULT["mode"]; FAULT.clear()
        if mode == "torn" and ev == "shutil.rmtree":     # half of the files are removed, then the error
            fs = sorted(os.path.join(d, f) for d, _, ff in os.walk(args[0]) for f in ff)
            for f in fs[:max(1, len(fs) // 2)]: os.remove(f)
        FAULT_RAISED.append(kind); raise (PermissionError if ERRNO == errno.EACCES else OSError)(ERRNO, "injected", str(args[0]))
FAULT_RAISED = []; EXDEV = False; ERRNO = errno.ENOSPC
sys.addaudithook(_hook)
class _W:                                    # write handle whose write() can fail
    def __init__(self, f, p): self.__dict__["f"] = f; self.__dict__["p"] = p
    def write(self, data):
        if _hit("write", _rel(self.p)):
            mode = FAULT["mode"]; e = _err(self.p); FAULT.clear()
            if mode == "torn": self.f.write(data[:len(data) // 2]); self.f.flush()
            FAULT_RAISED.append("write"); raise e
        return self.f.write(data)
    def __getattr__(self, n): return getattr(self.f, n)
    def __enter__(self): self.f.__enter__(); return self
    def __exit__(self, *a): return self.f.__exit__(*a)
_open = io.open
def _wopen(file, mode="r", *a, **k):
    f = _open(file, mode, *a, **k)
    if FAULT and isinstance(mode, str) and any(c in mode for c in "wax+") and not isinstance(file, int):
        return _W(f, file)
    return f
io.open = builtins.open = _wopen
shutil._USE_CP_SENDFILE = False              # make the copy inside shutil.move use write()
import modelx.serialize.serializer_6 as _s6, modelx.serialize.ziputil as _zu, types
_zu.time = types.SimpleNamespace(sleep=lambda s: None)
def _patch_pickler(name):
    base = getattr(_s6, name)
    class P(base):
        def dump(self, obj):
            if _hit("dump", name):
                e = _err(name); FAULT.clear(); FAULT_RAISED.append("dump"); raise e
            return super().dump(obj)
        def load(self):
            if _hit("load", name):
                e = _err(name); FAULT.clear(); FAULT_RAISED.append("load"); raise e
            return super().load()
    setattr(_s6, name, P)
for _n in ("ModelPickler", "IOSpecPickler"): _patch_pickler(_n)
def arm(kind, detail, occ, mode, err):
    global ERRNO
    ERRNO = getattr(errno, err)
    FAULT.update(kind=kind, detail=detail, occ=occ, mode=mode, errno=ERRNO)
# --------------------------------------------------------------------------------------------------
'''


def script(case):
    c = normalise(case) or case
    cont = c["container"]
    name = "mdl.zip" if cont == "zip" else "mdl"
    save = "m.zip(path)" if cont == "zip" else "m.write(path)"
    L = ["import os, shutil, tempfile, zipfile", "import modelx as mx", "",
         "root = os.path.realpath(tempfile.mkdtemp())",
         "os.mkdir(os.path.join(root, 'tmp')); tempfile.tempdir = os.path.join(root, 'tmp')",
         "path = os.path.join(root, %r)" % name, _PRELUDE,
         "m = mx.new_model('M'); s = m.new_space('S')", "s.new_cells('f', formula='lambda x: x + r'); s.r = 0; m.gen = 0"]
    L += _BUILD_SRC[c["model"]]
    L += ["", "def show():", "    for sfx in ('', '_BAK1', '_BAK2', '_BAK3', '_BAK4'):", "        p = path + sfx",
          "        if os.path.isdir(p): print('  ', os.path.basename(p), 'dir', sorted(os.listdir(p)))",
          "        elif os.path.exists(p): print('  ', os.path.basename(p), os.path.getsize(p), 'bytes, is_zipfile:', "
          "zipfile.is_zipfile(p), zipfile.ZipFile(p).namelist() if zipfile.is_zipfile(p) else '')", "    print('   serializing flags:', mx.core.mxsys.serializing, "
          "mx.core.mxsys.iomanager.serializing, ' models:', sorted(mx.get_models()))", ""]

    def armline(j, f):
        pts = count_points(dict(c, faults=c["faults"][:j]), j)["points"]
        kind, rest = f["op"].split(" ", 1)
        detail = rest.rsplit(" @", 1)[0]
        occ = sum(1 for p in pts[:f["k"]] if p.split(" ", 1)[0] == kind and p.split(" ", 1)[1].rsplit(" @", 1)[0] == detail)
        return "arm(%r, %r, %d, %r, %r)      # fault point %d of %d: %s" % (kind, detail, occ, f["mode"], f["err"],
                                                                        f["k"], len(pts), f["op"])
    if c["kind"] == "save":
        n = c["gens"]
        for i in range(1, n):
            L.append("m.gen = %d; s.r = %d; %s          # generation %d, fault-free" % (i, i, save, i))
        if c.get("env") == "exdev":
            L.append("EXDEV = True       # os.rename inside shutil.move answers EXDEV (temp dir on another file system)")
        for j, f in enumerate(c.get("faults", [])):
            L.append("m.gen = %d; s.r = %d" % (n + j, n + j))
            L.append(armline(j, f))
            L.append("try:\n    %s; print('save %d returned')\nexcept Exception as e:\n    print('save %d failed:', repr(e))"
                     % (save, n + j, n + j))
            L.append("FAULT.clear(); print('fault raised at:', FAULT_RAISED); show()")
        L.append("# expected (C14): generation %d readable at <path> or <path>_BAK1; a zip <path> is absent or a complete "
                 "archive; flags None" % (n - 1))
    else:
        L.append("m.gen = 1; s.r = 1; %s" % save)
        if c.get("reg") != "same":
            L.append("m.close()")
        if c.get("corrupt"):
            L.append("# corrupt the saved tree: %r" % (c["corrupt"],))
            cor = c["corrupt"]
            if cont == "dir":
                if cor["how"] == "missing":
                    L.append("os.remove(os.path.join(path, %r))" % cor["file"])
                else:
                    L.append("p = os.path.join(path, %r); b = open(p, 'rb').read(); open(p, 'wb').write(b[:len(b) // 2])"
                             % cor["file"])
            elif cor["file"] == "<archive>":
                L.append("b = open(path, 'rb').read(); open(path, 'wb').write(b[:len(b) // 2])")
            else:
                L.append("z = zipfile.ZipFile(path); mem = [(i.filename, z.read(i)) for i in z.infolist()]; z.close(); "
                         "os.remove(path)")
                L.append("z = zipfile.ZipFile(path, 'w')")
                L.append("for n_, b in mem:\n    if n_ == %r:\n        %s\n    z.writestr(n_, b)" % (
                    cor["file"], "continue" if cor["how"] == "missing" else "b = b[:len(b) // 2]"))
                L.append("z.close()")
        L.append("for _n in ('ModelUnpickler', 'IOSpecUnpickler'): _patch_pickler(_n)")
        for j, f in enumerate(c.get("faults", [])):
            L.append(armline(j, f))
        L.append("print('models before:', sorted(mx.get_models()))")
        L.append("try:\n    mx.read_model(path); print('load returned')\nexcept Exception as e:\n    print('load failed:', repr(e))")
        L.append("FAULT.clear(); print('fault raised at:', FAULT_RAISED)")
        L.append("print('models after :', sorted(mx.get_models()), ' flags:', mx.core.mxsys.serializing, "
                 "mx.core.mxsys.iomanager.serializing, ' ios:', list(mx.core.mxsys.iomanager.ios))")
        L.append("# expected (C14): no half-loaded model registered, flags None, no leaked ios")
    L.append("tempfile.tempdir = None; shutil.rmtree(root, ignore_errors=True)")
    return "\n".join(L)
