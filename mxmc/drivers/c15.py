"""C15 An exported package computes the same values as the model.

Bounded-exhaustive enumeration of *programs* (small modelx models) from a grammar restricted
to the documented export subset

    structure S  x  syntactic context C  x  name-use atom A  x  formula form F  x  cached flags V

Every generated model is exported with ``model.export(path)``; the packages are imported in a
SUBPROCESS in which ``import modelx`` is blocked (mxmc/c15_child.py), many packages per
subprocess; every cells of every (static / item / nested item) space is queried at all arguments
on both sides with the *same* query expression and the tables are compared.

Clauses
    same-value        the model returns a value and the package returns another one / raises
    cached==uncached  the package of a program with uncached cells disagrees with the package
                      of the same program with all cells cached (where the model agrees)
    no-modelx         importing / querying the package tried to import modelx
    export-raises     a model of the subset cannot be exported, or its package cannot be imported

Where the MODEL raises for a query the property ("returns the same value as the model")
demands nothing; such queries are counted (``model_raised_skipped``) and not judged.

A case is the small coordinate object {"S","C","A","F","V"[, "drop"]}; ``expand(case)`` turns
it deterministically into the explicit model description (spaces, cells sources, references)
that ``build`` realises with public modelx API only.
"""
import os
import sys
import ast
import json
import shutil
import tempfile
import subprocess

import modelx as mx
from mxmc.session import reset_world, digest
from mxmc import c15_child
from mxmc.c15_child import render

PROPERTY = "C15"
LEVEL = "exploration"
ASSUMPTIONS = [
    "documented export subset = docstring of modelx.export_model: int/str/float references as literals, other "
    "values pickled, object-valued (cells / space) references; NOT generated because documented as unsupported: "
    "relative (auto/relative-mode, target inside the parametrised tree) references in ItemSpaces, IOSpecs other "
    "than PandasData (PandasData csv / excel references ARE generated), arithmetic coercion of parameterless cells",
    "NOT generated because undocumented either way (left out, see report): cells input values, parameter formulas "
    "returning {'refs':..}/{'base':..}, module-valued references, subscription of a cells through an attribute "
    "path (_space.f[x], T.f[x]), _space._name inside ItemSpaces (auto-generated names), allow_none",
    "where the model itself raises for a query nothing is demanded of the package (the property speaks of the "
    "value the model returns)",
    "CPython 3.12, libcst as installed; the child interpreter is /venv/bin/python with a meta-path finder that "
    "raises ImportError for modelx",
    "values are compared after a type-tagged rendering (bool/int/str/float/list/tuple/dict/set exact)",
]

CHILD = os.path.abspath(c15_child.__file__)
BATCH = 50                      # packages per subprocess
SUBPROCESS_TIMEOUT = 600

# ----------------------------------------------------------------------------------------------
# Grammar: structures

# name -> description.  'focus' is the space that receives the formula under test ``g`` and
# (unless 'fhome' says otherwise) the members the atom needs.  'pnames' are ItemSpace
# parameter names visible in the focus space.
STRUCTS = {
    "static":    {"spaces": [("A", [], None)], "focus": "A"},
    "nested":    {"spaces": [("A", [], None), ("A.T", [], None)], "focus": "A.T", "parent_pf": "A"},
    "nested3":   {"spaces": [("A", [], None), ("A.T", [], None), ("A.T.U", [], None)], "focus": "A.T.U",
                  "parent_pf": "A.T"},
    "inh1":      {"spaces": [("A", [], None), ("B", ["A"], None)], "focus": "A", "override_r": ["B"]},
    "inh1o":     {"spaces": [("A", [], None), ("B", ["A"], None)], "focus": "A", "override_r": ["B"],
                  "override_f": ["B"]},
    "inh2":      {"spaces": [("A", [], None), ("C", [], None), ("B", ["A", "C"], None)], "focus": "C",
                  "fhome": "A"},
    "inh3":      {"spaces": [("A", [], None), ("B", ["A"], None), ("D", ["B"], None)], "focus": "A",
                  "override_r": ["B"], "override_f": ["D"]},
    "item1":     {"spaces": [("P", [], "i")], "focus": "P", "pnames": ["i"]},
    "item1d":    {"spaces": [("P", [], "i")], "focus": "P", "pnames": ["i"], "pdefaults": {"P": [("i", "0")]}},
    "item2":     {"spaces": [("P", [], "i, j=1")], "focus": "P", "pnames": ["i", "j"]},
    "item2r":    {"spaces": [("P", [], "i, j")], "focus": "P", "pnames": ["i", "j"]},
    "itemnest":  {"spaces": [("P", [], "i"), ("P.Q", [], "j")], "focus": "P.Q", "pnames": ["i", "j"]},
    # nested parametrised space whose parameter has the SAME name as the enclosing one (the inner value wins)
    "itemnestsame": {"spaces": [("P", [], "i"), ("P.Q", [], "i")], "focus": "P.Q", "pnames": ["i"]},
    "itemchild": {"spaces": [("P", [], "i"), ("P.T", [], None)], "focus": "P.T", "pnames": ["i"]},
    "itembase":  {"spaces": [("A", [], None), ("P", ["A"], "i")], "focus": "A", "pnames": [], "item": True,
                  "late_params": ["i"]},
    "subitem":   {"spaces": [("A", [], None), ("A.P", [], "i")], "focus": "A.P", "pnames": ["i"]},
}
STRUCT_ORDER = ["static", "nested", "nested3", "inh1", "inh1o", "inh2", "inh3", "item1", "item1d", "item2",
                "item2r", "itemnest", "itemnestsame", "itemchild", "itembase", "subitem"]
# simpler structures to try while shrinking
SIMPLER = {
    "nested": ["static"], "nested3": ["static", "nested"], "inh1": ["static"], "inh1o": ["static", "inh1"],
    "inh2": ["static", "inh1"], "inh3": ["static", "inh1", "inh1o"], "item1": ["static"],
    "item1d": ["static", "item1"], "item2": ["static", "item1", "item1d"],
    "item2r": ["static", "item1", "item1d"],
    "itemnest": ["static", "item1", "item1d", "nested"],
    "itemnestsame": ["static", "item1", "item1d", "nested", "itemnest"], "itemchild": ["static", "item1", "item1d", "nested"],
    "itembase": ["static", "inh1", "item1", "item1d"], "subitem": ["static", "item1", "item1d", "nested"],
    "static": [],
}


def is_item(S):
    st = STRUCTS[S]
    return bool(st.get("pnames")) or bool(st.get("item"))


# ----------------------------------------------------------------------------------------------
# Grammar: atoms  (name -> (expression template over {v}, needs, validity predicate))
#
# needs: members that must exist in the focus space (created by expand.need).  Every atom is int-valued.

def _any(S):
    return True


def _static_only(S):
    return not is_item(S)


def _params(n):
    return lambda S: len(STRUCTS[S].get("pnames", [])) >= n or (n == 1 and S == "itembase")


ATOMS = {
    "arith":     ("{v} * 2 + 1", [], _any),
    "call":      ("f({v})", ["f"], _any),
    "nestcall":  ("f(f({v}) % 3)", ["f"], _any),
    "kw":        ("h({v}, y=2)", ["h"], _any),
    "kwx":       ("h(x={v})", ["h"], _any),
    "kwref":     ("h({v}, y=y)", ["h", "y"], _any),
    "star":      ("h(*[{v}], **{{'y': 2}})", ["h"], _any),
    "scalar":    ("k() + {v}", ["k"], _any),
    "valparam":  ("v2({v}) * 10 + v2({v} + 1)", ["v2"], _any),
    "rec":       ("(g({v} - 1) + f({v}) if {v} > 0 else 0)", ["f"], _any),
    "ref":       ("r + {v}", ["r"], _any),
    "strref":    ("len(s) + {v}", ["s"], _any),
    "fltref":    ("int(q * 2) + {v}", ["q"], _any),
    "litmix":    ("(5 if N0 is None else 0) + int(B1) + NEG + int(FS * 1e8) + {v}", ["N0", "B1", "NEG", "FS"], _any),
    "tupref":    ("TP[{v} % 2] + len(TP)", ["TP"], _any),
    "longstr":   ("len(LS) + LS.count('w') + {v}", ["LS"], _any),
    "infref":    ("(1 if QI > 10 ** 9 else 0) + {v}", ["QI"], _any),
    "nanref":    ("(1 if QN != QN else 0) + {v}", ["QN"], _any),
    "bref":      ("max + {v}", ["max"], _any),
    "bmref":     ("sum + {v}", ["sum"], _any),
    "bchild":    ("filter.f({v})", ["filter"], _any),
    "bparam":    ("RB[1].f({v})", ["RB"], _any),
    "bfun":      ("max({v}, 1) + len(str({v}))", [], _any),
    "bcell":     ("min({v})", ["min"], _any),
    "dict":      ("D[{v}]", ["D"], _any),
    "dget":      ("D.get({v}, 0)", ["D"], _any),
    "list":      ("L[{v}] + len(L)", ["L"], _any),
    "slice":     ("sum(L[{v}:])", ["L"], _any),
    "mref":      ("G + {v}", ["G"], _any),
    "space":     ("_space.f({v})", ["f"], _any),
    "model":     ("_model.G + {v}", ["G"], _any),
    "modelpath": ("_model.{focus}.f({v})", ["f"], _any),
    "cellsdict": ("_space._cells['f']({v})", ["f"], _any),
    "name":      ("len(_space._name) + {v}", [], _static_only),
    "parent":    ("_space._parent.pf({v})", ["pf"], lambda S: "parent_pf" in STRUCTS[S]),
    "child":     ("T1.f({v})", ["T1"], _any),
    "itemcall":  ("R[1].f({v}) + R(2).f({v})", ["R"], _any),
    "itemdyn":   ("R[{v}].f(1)", ["R"], _any),
    "xref":      ("X({v})", ["X"], _any),
    "xabs":      ("XA({v})", ["XA"], _any),
    "xdeep":     ("XD({v})", ["XD"], _any),
    "mxref":     ("MX({v}) + MS.f({v})", ["MX"], _any),
    # model-level references to a cells / the space INSIDE the focus tree: they stay bound to the static objects
    # also when read from an ItemSpace
    "mxin":      ("MXI({v})", ["MXI"], _any),
    "msin":      ("MSI.f({v})", ["MSI"], _any),
    "spref":     ("SP.f({v})", ["SP"], _any),
    "spabs":     ("SPA.f({v})", ["SPA"], _any),
    "xin":       ("XI({v})", ["XI"], _static_only),      # auto ref to a sibling: relative -> not in ItemSpaces
    "xinabs":    ("XIA({v})", ["XIA"], _any),
    "shared":    ("(1 if L is L2 else 0) + L2[{v}]", ["L", "L2"], _any),
    "fstr":      ("int(f'{{f({v})}}')", ["f"], _any),
    "walrus":    ("(w1 := f({v})) + w1", ["f"], _any),
    "cond":      ("(f({v}) if {v} else r)", ["f", "r"], _any),
    "pdseries":  ("int(PS[{v}]) + len(PS)", ["PS"], lambda S: S in ("static", "inh1", "item1", "nested")),
    "pdframe":   ("int(PD['b'][{v}]) + len(PD)", ["PD"], lambda S: S in ("static", "inh1", "item1", "nested")),
    "param":     ("i * 7 + {v}", [], _params(1)),
    "param2":    ("i * 7 + j * 3 + {v}", [], _params(2)),
}
ATOM_ORDER = list(ATOMS)
CORE_ATOMS = ["call", "kwref", "ref", "bref", "bfun", "bcell", "dict", "space", "rec", "scalar", "xref", "child"]
TRIVIAL_ATOMS = {"arith", "bfun", "name"}      # touch no other cells / reference / parameter


# ----------------------------------------------------------------------------------------------
# Grammar: contexts.  E is a function v -> expression text.
# expression contexts: usable as ``lambda x: <expr>`` and ``def g(x): return <expr>``
# statement contexts : def only.  Local names (n1, n2, p1, t1, inner, outer, gen1) never collide
# with the vocabulary, except in the three deliberate shadowing contexts.

EXPR_CTX = {
    "direct":      lambda E: E("x"),
    "listcomp":    lambda E: "sum([%s for n1 in range(x + 1)])" % E("n1"),
    "genexp":      lambda E: "sum(%s for n1 in range(x + 1))" % E("n1"),
    "dictcomp":    lambda E: "sum({n1: %s for n1 in range(x + 1)}.values())" % E("n1"),
    "setcomp":     lambda E: "sum({%s for n1 in range(x + 1)})" % E("n1"),
    "compcond":    lambda E: "sum([n1 + 1 for n1 in range(x + 1) if %s != 3])" % E("n1"),
    "compiter":    lambda E: "sum([n1 + 1 for n1 in range(%s %% 4)])" % E("x"),
    "nestedcomp":  lambda E: "sum([%s for n1 in range(x + 1) for n2 in range(n1 + 1)])" % E("n2"),
    "compincomp":  lambda E: "sum([sum([%s for n2 in range(n1 + 1)]) for n1 in range(x + 1)])" % E("n2"),
    "lambda":      lambda E: "(lambda p1: %s)(x)" % E("p1"),
    "lambdadef":   lambda E: "(lambda p1=%s: p1)()" % E("x"),
    "lamcomp":     lambda E: "(lambda p1: sum([%s for n1 in range(p1 + 1)]))(x)" % E("n1"),
    "complam":     lambda E: "sum([(lambda p1: %s)(n1) for n1 in range(x + 1)])" % E("p1"),
    "lamthencomp": lambda E: "(lambda p1: p1)(x) + sum([%s for n1 in range(x + 1)])" % E("n1"),
    "compthenlam": lambda E: "sum([n1 for n1 in range(x + 1)]) + (lambda p1: %s)(x)" % E("p1"),
    "genthencomp": lambda E: "sum(n2 for n2 in range(x + 1)) + sum([%s for n1 in range(x + 1)])" % E("n1"),
    "shadowcomp":  lambda E: "sum([f for f in range(x + 1)]) + %s" % E("x"),
    "shadowcompr": lambda E: "sum([r for r in range(x + 1)]) + %s" % E("x"),
    "shadowlam":   lambda E: "(lambda f: f + 1)(x) + %s" % E("x"),
    "lambdabuiltin": lambda E: "(lambda max: max + 1)(%s)" % E("x"),
    "compwalrus":  lambda E: "sum([(w2 := %s) + w2 - w2 for n1 in range(x + 1)])" % E("n1"),
    "fstring":     lambda E: "int(f'{%s}')" % E("x").replace("'", '"'),
    "ternary":     lambda E: "%s if x else %s" % (E("x"), E("0")),
    "tuple":       lambda E: "(%s, [x, %s], {x: %s})" % (E("x"), E("x"), E("x")),
}
EXPR_ORDER = list(EXPR_CTX)

STMT_CTX = {
    "local":       lambda E: ["t1 = %s" % E("x"), "return t1 + 1"],
    "shadowlocal": lambda E: ["z = %s" % E("x"), "return z + 1"],
    "if":          lambda E: ["if x > 0:", "    return %s" % E("x"), "else:", "    return %s" % E("0")],
    "for":         lambda E: ["t1 = 0", "for n1 in range(x + 1):", "    t1 += %s" % E("n1"), "return t1"],
    "while":       lambda E: ["t1 = 0", "n1 = 0", "while n1 <= x:", "    t1 += %s" % E("n1"), "    n1 += 1",
                              "return t1"],
    "try":         lambda E: ["try:", "    return %s" % E("x"), "except ZeroDivisionError as e1:",
                              "    return len(str(e1))", "finally:", "    pass"],
    "shadowbuiltin": lambda E: ["len = %s" % E("x"), "return len + 1"],
    # a local / parameter named like a cells of the space and SUBSCRIPTED (cells[x] is rewritten to a call)
    "shadowlocalsub": lambda E: ["z = [10, 20, 30, %s]" % E("x"), "return z[x] + z[3]"],
    "shadowforsub": lambda E: ["t1 = %s" % E("x"), "for z in ([1, 2], [3, 4]):", "    t1 += z[0]", "return t1"],
    "shadowlamsub": lambda E: ["return (lambda z: z[1])([0, %s])" % E("x")],
    "paramshadow": lambda E: ["return %s + y" % E("x")],           # signature g(x, y=7): y is also a ref name
    "shadowdefparam": lambda E: ["def inner(f):", "    return f + 1", "return inner(x) + %s" % E("x")],
    "shadowdefname": lambda E: ["def z(p1):", "    return p1 + 1", "return z(%s)" % E("x")],
    "importas":    lambda E: ["import math as m1", "return m1.floor(%s)" % E("x")],
    "nesteddef":   lambda E: ["def inner(p1):", "    return %s" % E("p1"), "return inner(x)"],
    "nesteddef2":  lambda E: ["def outer(p1):", "    def inner(p2):", "        return %s + p1 - p1" % E("p2"),
                              "    return inner(p1)", "return outer(x)"],
    "defthencomp": lambda E: ["def inner(p1):", "    return p1",
                              "return sum([%s for n1 in range(inner(x) + 1)])" % E("n1")],
    "compthendef": lambda E: ["t1 = sum([n1 for n1 in range(x + 1)])", "def inner(p1):",
                              "    return %s" % E("p1"), "return inner(x) + t1"],
    "closure":     lambda E: ["t1 = %s" % E("x"), "def inner():", "    return t1 + 1", "return inner()"],
    "nonlocal":    lambda E: ["t1 = 0", "def inner(p1):", "    nonlocal t1", "    t1 += %s" % E("p1"), "inner(x)",
                              "return t1"],
    "genfunc":     lambda E: ["def gen1(p1):", "    for n1 in range(p1 + 1):", "        yield %s" % E("n1"),
                              "return sum(gen1(x))"],
    "docstring":   lambda E: ['"""doc f r max"""', "# f(x) r max", "return %s  # f" % E("x")],
    "import":      lambda E: ["import math", "return math.floor(%s)" % E("x")],
    "importfrom":  lambda E: ["from math import floor", "return floor(%s)" % E("x")],
    "multiline":   lambda E: ["return (", "    %s" % E("x"), "    + 0", ")"],
    "defaultarg":  lambda E: ["return %s + w2" % E("x")],          # signature g(x, w2=2)
    "with":        lambda E: ["import contextlib", "with contextlib.nullcontext():", "    return %s" % E("x")],
}
STMT_ORDER = list(STMT_CTX)
CTX_NEEDS = {"shadowlocalsub": ["z"], "shadowforsub": ["z"], "shadowlamsub": ["z"], "shadowlocal": ["z"], "shadowcomp": ["f"], "shadowcompr": ["r"], "shadowlam": ["f"],
             "paramshadow": ["y"], "shadowdefparam": ["f"], "shadowdefname": ["z"]}
# contexts that exercise the same translation step: while shrinking, the first member is tried for the others
CTX_FAMILY = {"genthencomp": ["lamthencomp"], "defthencomp": ["lamthencomp"], "compthendef": ["compthenlam"],
              "nesteddef2": ["nesteddef"], "compincomp": ["listcomp"], "nestedcomp": ["listcomp"],
              "lamcomp": ["listcomp", "lambda"], "complam": ["listcomp", "lambda"]}
CTX_SIG = {"defaultarg": "x, w2=2", "paramshadow": "x, y=7"}
CORE_CTX = [("direct", "lambda"), ("listcomp", "lambda"), ("nesteddef", "def")]


def forms_of(C):
    return ["lambda", "def"] if C in EXPR_CTX else ["def"]


ALL_CF = [(C, F) for C in EXPR_ORDER for F in ("lambda", "def")] + [(C, "def") for C in STMT_ORDER]

FLAGS = ["c", "g", "a", "s"]    # all cached / g uncached / all uncached / all but g uncached


# ----------------------------------------------------------------------------------------------
# expansion: coordinates -> explicit model description

_COMPILES = {}


def valid(case):
    S, C, A, F = case["S"], case["C"], case["A"], case["F"]
    if S not in STRUCTS or A not in ATOMS or (C not in EXPR_CTX and C not in STMT_CTX):
        return False
    if F not in forms_of(C) or case.get("V", "c") not in FLAGS:
        return False
    if not ATOMS[A][2](S):
        return False
    k = (S, C, A, F)
    if k not in _COMPILES:
        try:                                    # the grammar is: syntactically valid Python only
            compile(g_source(case), "<g>", "exec")
            _COMPILES[k] = True
        except SyntaxError:
            _COMPILES[k] = False
    return _COMPILES[k]


def g_source(case):
    S, C, A, F = case["S"], case["C"], case["A"], case["F"]
    tmpl = ATOMS[A][0]
    focus = STRUCTS[S]["focus"]

    def E(v):
        return tmpl.format(v=v, focus=focus)
    sig = CTX_SIG.get(C, "x")
    if C in EXPR_CTX:
        expr = EXPR_CTX[C](E)
        if F == "lambda":
            return "lambda %s: %s" % (sig, expr)
        return "def g(%s):\n    return %s" % (sig, expr)
    lines = STMT_CTX[C](E)
    return "def g(%s):\n" % sig + "\n".join("    " + ln for ln in lines)


def expand(case):
    """Explicit description: {"mrefs": [[name, literal]], "spaces": [space...], "focus": path}
    space = {"path", "bases", "params", "cells": [[name, src, cached]], "refs": [ref...]}
    ref   = [name, "val", python-literal | inf | nan] | [name, "obj", target path, refmode]
            | [name, "same", other ref name] (the very same object) | [name, "pandas", kind, file, file_type]
    model refs: literal, or "obj:<path>" (a cells / space of the model)
    """
    assert valid(case), case
    S, C, A, V = case["S"], case["C"], case["A"], case.get("V", "c")
    st = STRUCTS[S]
    focus = st["focus"]
    fhome = st.get("fhome", focus)
    pnames = st.get("pnames", [])
    spaces = {p: {"path": p, "bases": list(b), "params": prm, "cells": [], "refs": []}
              for p, b, prm in st["spaces"]}
    order = [p for p, _, _ in st["spaces"]]
    mrefs = []
    needs = list(ATOMS[A][1]) + list(CTX_NEEDS.get(C, []))
    done = set()
    psuffix = "".join(" + %d * %s" % (100 * 10 ** k, n) for k, n in enumerate(pnames))

    def add_space(path, bases, params, after=None):
        spaces[path] = {"path": path, "bases": bases, "params": params, "cells": [], "refs": []}
        order.append(path)

    def need(n):
        if n in done:
            return
        done.add(n)
        fs = spaces[focus]
        if n == "r":
            spaces[fhome]["refs"].append(["r", "val", "3"])
        elif n == "f":
            need("r")
            spaces[fhome]["cells"].append(["f", "lambda x: 10 * x + r" + psuffix, True])
        elif n == "h":
            need("f")
            fs["cells"].append(["h", "lambda x, y=1: f(x) * 2 + y", True])
        elif n == "k":
            need("f")
            fs["cells"].append(["k", "lambda: f(1) + 40", True])
        elif n == "min":
            fs["cells"].append(["min", "lambda x: x + 50" + psuffix, True])
        elif n == "z":
            fs["cells"].append(["z", "lambda x: x + 900", True])
        elif n == "v2":
            fs["cells"].append(["v2", "lambda val: val + 1", True])
        elif n == "pf":
            spaces[st["parent_pf"]]["cells"].append(["pf", "lambda x: x + 1000", True])
        elif n == "y":
            fs["refs"].append(["y", "val", "2"])
        elif n == "s":
            fs["refs"].append(["s", "val", "'abc'"])
        elif n == "q":
            fs["refs"].append(["q", "val", "2.75"])
        elif n == "max":
            fs["refs"].append(["max", "val", "100"])
        elif n in ("N0", "B1", "NEG", "FS", "TP", "LS", "QI", "QN"):
            lit = {"N0": "None", "B1": "True", "NEG": "-3", "FS": "2.5e-07", "TP": "(4, 5, 6)",
                   "LS": repr("word " * 40), "QI": "inf", "QN": "nan"}[n]
            fs["refs"].append([n, "val", lit])
        elif n == "PS":
            fs["refs"].append(["PS", "pandas", "series", "data/ser.csv", "csv"])
        elif n == "PD":
            fs["refs"].append(["PD", "pandas", "frame", "data/df.xlsx", "excel"])
        elif n == "sum":
            mrefs.append(["sum", "9"])
        elif n == "filter":
            add_space(focus + ".filter", [], None)
            spaces[focus + ".filter"]["cells"].append(["f", "lambda x: x + 60" + psuffix, True])
        elif n == "RB":
            add_space(focus + ".RB", [], "max")
            spaces[focus + ".RB"]["cells"].append(["f", "lambda x: x + max" + psuffix, True])
        elif n == "D":
            fs["refs"].append(["D", "val", "{0: 10, 1: 11, 2: 12, 3: 13}"])
        elif n == "L":
            fs["refs"].append(["L", "val", "[5, 6, 7, 8]"])
        elif n == "L2":
            need("L")
            fs["refs"].append(["L2", "same", "L"])
        elif n == "G":
            mrefs.append(["G", "5"])
        elif n == "Z":
            add_space("Z", [], None)
            spaces["Z"]["cells"].append(["f", "lambda x: x + 7", True])
        elif n in ("X", "XA", "SP", "SPA"):
            need("Z")
            target = "Z.f" if n in ("X", "XA") else "Z"
            fs["refs"].append([n, "obj", target, "absolute" if n.endswith("A") else "auto"])
        elif n == "XD":
            need("Z")
            add_space("Z.W", [], None)
            spaces["Z.W"]["cells"].append(["f", "lambda x: x + 70", True])
            fs["refs"].append(["XD", "obj", "Z.W.f", "auto"])
        elif n == "MX":
            need("Z")
            mrefs.append(["MX", "obj:Z.f"])
            mrefs.append(["MS", "obj:Z"])
        elif n in ("MXI", "MSI"):
            need("f")
            mrefs.append([n, "obj:" + fhome + (".f" if n == "MXI" else "")])
        elif n in ("XI", "XIA"):
            need("f")
            fs["refs"].append([n, "obj", fhome + ".f", "absolute" if n == "XIA" else "auto"])
        elif n == "T1":
            add_space(focus + ".T1", [], None)
            spaces[focus + ".T1"]["cells"].append(["f", "lambda x: x + 40" + psuffix, True])
        elif n == "R":
            add_space(focus + ".R", [], "n")
            spaces[focus + ".R"]["cells"].append(["f", "lambda x: x + n" + psuffix, True])
        else:  # pragma: no cover
            raise AssertionError(n)

    need("f")          # every program has f (and r): the shadowing contexts and overrides rely on it
    for n in needs:
        need(n)
    spaces[focus]["cells"].append(["g", g_source(case), True])
    for p in st.get("override_r", []):
        spaces[p]["refs"].append(["r", "val", "5"])
    for p in st.get("override_f", []):
        spaces[p]["cells"].append(["f", "lambda x: 20 * x + r", True])
    for p, lst in st.get("pdefaults", {}).items():
        for n, lit in lst:
            spaces[p]["refs"].append([n, "val", lit])
    # flags
    for sp in spaces.values():
        for c in sp["cells"]:
            is_g = (sp["path"] == focus and c[0] == "g")
            if V == "a" or (V == "g" and is_g) or (V == "s" and not is_g):
                c[2] = False
    # members the formula under test does not need (removable while shrinking)
    needed = set()
    todo = list(ATOMS[A][1]) + list(CTX_NEEDS.get(C, []))
    deps = {"f": ["r"], "h": ["f"], "k": ["f"], "XI": ["f"], "XIA": ["f"], "MXI": ["f"], "MSI": ["f"], "L2": ["L"], "XD": ["Z"], "MX": ["Z"], "X": ["Z"],
            "XA": ["Z"], "SP": ["Z"], "SPA": ["Z"]}
    while todo:
        n = todo.pop()
        if n not in needed:
            needed.add(n)
            todo.extend(deps.get(n, []))
    desc = {"mrefs": mrefs, "spaces": [spaces[p] for p in order], "focus": focus, "needed": sorted(needed)}
    for d in case.get("drop", []):
        apply_drop(desc, d)
    return desc


def droppable(desc):
    """Identifiers of removable members: "space:<path>", "cells:<path>:<name>", "ref:<path>:<name>", "mref:<name>"."""
    out = []
    focus = desc["focus"]
    needed = set(desc.get("needed", []))
    needed_spaces = set()
    if "Z" in needed:
        needed_spaces.add("Z")
    if "XD" in needed:
        needed_spaces.add("Z.W")
    if "T1" in needed:
        needed_spaces.add(focus + ".T1")
    for n in ("R", "RB", "filter"):
        if n in needed:
            needed_spaces.add(focus + "." + n)
    for sp in desc["spaces"]:
        p = sp["path"]
        if not (focus == p or focus.startswith(p + ".")) and p not in needed_spaces:
            out.append("space:" + p)
        if p in needed_spaces:
            continue
        for c in sp["cells"]:
            if not (p == focus and c[0] == "g") and c[0] not in needed:
                out.append("cells:%s:%s" % (p, c[0]))
        for r in sp["refs"]:
            if r[0] not in needed:
                out.append("ref:%s:%s" % (p, r[0]))
    return out


def apply_drop(desc, d):
    kind, _, rest = d.partition(":")
    if kind == "space":
        gone = [sp["path"] for sp in desc["spaces"] if sp["path"] == rest or sp["path"].startswith(rest + ".")]
        desc["spaces"] = [sp for sp in desc["spaces"] if sp["path"] not in gone]
        for sp in desc["spaces"]:
            sp["bases"] = [b for b in sp["bases"] if b not in gone]
            sp["refs"] = [r for r in sp["refs"]
                          if not (r[1] == "obj" and (r[2] in gone or r[2].rsplit(".", 1)[0] in gone))]
    elif kind == "cells":
        p, n = rest.rsplit(":", 1)
        for sp in desc["spaces"]:
            if sp["path"] == p:
                sp["cells"] = [c for c in sp["cells"] if c[0] != n]
            sp["refs"] = [r for r in sp["refs"] if not (r[1] == "obj" and r[2] == p + "." + n)]
    elif kind == "ref":
        p, n = rest.rsplit(":", 1)
        for sp in desc["spaces"]:
            if sp["path"] == p:
                sp["refs"] = [r for r in sp["refs"] if r[0] != n and not (r[1] == "same" and r[2] == n)]
    elif kind == "mref":
        desc["mrefs"] = [r for r in desc["mrefs"] if r[0] != rest]


# ----------------------------------------------------------------------------------------------
# building the model (public API only) and the query list

def _lit(src):
    """Value of a reference literal of the description (python literal, or inf / -inf / nan)."""
    if src in ("inf", "-inf", "nan"):
        return float(src)
    return ast.literal_eval(src)


def _lit_src(src):
    return "float(%r)" % src if src in ("inf", "-inf", "nan") else src


PANDAS_SRC = {"series": "pd.Series([10, 11, 12, 13], index=[0, 1, 2, 3], name='ser')",
              "frame": "pd.DataFrame({'a': [1, 2, 3, 4], 'b': [5, 6, 7, 8]})"}


def _pandas_value(kind):
    import pandas as pd
    return eval(PANDAS_SRC[kind], {"pd": pd})


def _get(m, path):
    o = m
    for n in path.split("."):
        o = getattr(o, n)
    return o


def build(desc):
    reset_world()
    m = mx.new_model("M")
    for n, lit in desc["mrefs"]:
        if not lit.startswith("obj:"):
            setattr(m, n, _lit(lit))
    for sp in desc["spaces"]:
        path = sp["path"]
        parent = _get(m, path.rsplit(".", 1)[0]) if "." in path else m
        kw = {}
        if sp["bases"]:
            kw["bases"] = [_get(m, b) for b in sp["bases"]]
        if sp["params"]:
            kw["formula"] = "lambda %s: None" % sp["params"]
        parent.new_space(path.rsplit(".", 1)[-1], **kw)
    for sp in desc["spaces"]:
        s = _get(m, sp["path"])
        for name, src, cached in sp["cells"]:
            if name in s.cells:                  # override of an inherited cells
                s.cells[name].set_formula(src)
                if not cached:
                    s.cells[name].is_cached = False
            else:
                s.new_cells(name, formula=src, is_cached=bool(cached))
    for n, lit in desc["mrefs"]:
        if lit.startswith("obj:"):
            setattr(m, n, _get(m, lit[4:]))
    for sp in desc["spaces"]:
        s = _get(m, sp["path"])
        for r in sp["refs"]:
            if r[1] == "val":
                s.set_ref(r[0], _lit(r[2]), "auto")
            elif r[1] == "same":
                s.set_ref(r[0], s.refs[r[2]], "auto")
            elif r[1] == "pandas":               # PandasData IOSpec (documented as supported)
                s.new_pandas(r[0], r[3], _pandas_value(r[2]), file_type=r[4])
            else:
                s.set_ref(r[0], _get(m, r[2]), r[3])
    return m


def _nparams(src):
    """(number of parameters, number with defaults, parameter names) of a formula source."""
    node = ast.parse(src.strip()).body[0]
    a = node.value.args if isinstance(node, ast.Expr) else node.args
    return len(a.args), len(a.defaults), [x.arg for x in a.args]


INST1 = ["[1]", "(2)"]
INST2 = ["[1]", "(2)", "[1, 2]", "(2, j=2)"]
INST2R = ["[1, 2]", "(2, 1)", "(1, j=1)"]


def queries(desc):
    """Query expressions over ``m`` (the model / the package's mx_model), identical for both sides."""
    by_path = {sp["path"]: sp for sp in desc["spaces"]}

    def members(path, seen=()):
        """cells (name -> src) visible in a space: own + inherited (first base wins, depth-first MRO is
        irrelevant here: only the NAMES and arities matter for the query list)."""
        sp = by_path[path]
        out = {}
        for b in reversed(sp["bases"]):
            if b in by_path and b not in seen:
                out.update(members(b, seen + (path,)))
        for n, src, _ in sp["cells"]:
            out[n] = src
        return out

    def instances(path):
        parts = path.split(".")
        exprs = ["m"]
        for k in range(len(parts)):
            sp = by_path[".".join(parts[:k + 1])]
            nxt = []
            for e in exprs:
                base = e + "." + parts[k]
                nxt.append(base)
                if sp["params"]:
                    prm = sp["params"]
                    for inst in (INST2 if "=" in prm else INST2R if "," in prm else INST1):
                        nxt.append(base + inst)
            exprs = nxt
        return exprs

    qs = []
    for sp in desc["spaces"]:
        mem = members(sp["path"])
        for inst in instances(sp["path"]):
            for name, src in mem.items():
                n, nd, pn = _nparams(src)
                if n == 0:
                    args = ["()"]
                elif n == 1:
                    args = ["(0)", "(1)", "(2)", "(%s=1)" % pn[0]]
                elif n == 2 and nd == 1:
                    args = ["(0)", "(1)", "(2)", "(1, 2)", "(2, 0)", "(1, %s=2)" % pn[1], "(%s=2)" % pn[0]]
                else:
                    args = ["(0, 1)", "(1, 0)", "(2, 2)"]
                for a in args:
                    qs.append("%s.%s%s" % (inst, name, a))
    return qs


def model_observe(expr, m):
    try:
        v = eval(expr, {"m": m})
    except (KeyboardInterrupt, SystemExit):
        raise
    except mx.core.errors.FormulaError:
        e = mx.get_error()
        return ["exc", type(e).__name__, str(e)[:160]]
    except BaseException as e:
        return ["exc", type(e).__name__, str(e)[:160]]
    return ["ok", render(v)]


# ----------------------------------------------------------------------------------------------
# running a batch of programs: build + export in this process, import + query in subprocesses

def run_child(root, jobs, tag):
    """jobs: [{"name","queries"}] -> {name: record}.  A package that kills the child interpreter is recorded as
    crashed and the remaining packages are run in a fresh child."""
    results = {}
    todo = list(jobs)
    rnd = 0
    while todo:
        rnd += 1
        jobf = os.path.join(root, "job_%s_%d.json" % (tag, rnd))
        outf = os.path.join(root, "out_%s_%d.jsonl" % (tag, rnd))
        with open(jobf, "w") as f:
            json.dump({"root": os.path.join(root, "pkgs"), "pkgs": todo, "pkg_time_limit": 60}, f)
        env = {k: v for k, v in os.environ.items() if k not in ("PYTHONPATH", "PYTHONSTARTUP")}
        env["PYTHONHASHSEED"] = "0"
        env["PYTHONDONTWRITEBYTECODE"] = "1"
        try:
            p = subprocess.run([sys.executable, "-B", CHILD, jobf, outf], cwd=root, env=env,
                               stdout=subprocess.PIPE, stderr=subprocess.PIPE, timeout=SUBPROCESS_TIMEOUT)
            rc, err = p.returncode, p.stderr.decode("utf-8", "replace")[-400:]
        except subprocess.TimeoutExpired:
            rc, err = "timeout", ""
        got = []
        if os.path.exists(outf):
            for line in open(outf):
                line = line.strip()
                if line:
                    try:
                        got.append(json.loads(line))
                    except ValueError:
                        break
        for rec in got:
            results[rec["name"]] = rec
        if len(got) >= len(todo):
            break
        # the child died in package todo[len(got)]
        bad = todo[len(got)]
        results[bad["name"]] = {"name": bad["name"], "import_error": None, "crashed": "child exit %s %s" % (rc, err),
                                "table": {q: ["exc", "ChildCrashed", str(rc)] for q in bad["queries"]},
                                "modelx_attempts": [], "modelx_loaded": False}
        todo = todo[len(got) + 1:]
    return results


def run_programs(cases):
    """[case] -> [result]; result = {"case","desc","queries","model","export_error","pkg"}"""
    root = tempfile.mkdtemp(prefix="c15_")
    old_tmp = tempfile.tempdir
    try:
        os.makedirs(os.path.join(root, "pkgs"))
        os.makedirs(os.path.join(root, "tmp"))
        tempfile.tempdir = os.path.join(root, "tmp")
        out = []
        for k, case in enumerate(cases):
            desc = expand(case)
            name = "p%04d" % k
            res = {"case": case, "desc": desc, "name": name, "export_error": None}
            m = build(desc)                      # a failure here is a harness defect: let it propagate
            qs = queries(desc)
            res["queries"] = qs
            try:
                m.export(os.path.join(root, "pkgs", name))
            except (KeyboardInterrupt, SystemExit):
                raise
            except BaseException as e:
                res["export_error"] = [type(e).__name__, str(e)[:300]]
            res["model"] = {q: model_observe(q, m) for q in qs}
            out.append(res)
        reset_world()
        jobs = [{"name": r["name"], "queries": r["queries"]} for r in out if r["export_error"] is None]
        recs = {}
        for b in range(0, len(jobs), BATCH):
            recs.update(run_child(root, jobs[b:b + BATCH], "b%d" % b))
        for r in out:
            r["pkg"] = recs.get(r["name"])
            if r["export_error"] is None and r["pkg"] is None:      # pragma: no cover
                raise RuntimeError("no result for package %s" % r["name"])
        return out
    finally:
        tempfile.tempdir = old_tmp
        shutil.rmtree(root, ignore_errors=True)


# ----------------------------------------------------------------------------------------------
# oracle

def base_key(case):
    return json.dumps({k: v for k, v in case.items() if k != "V"}, sort_keys=True)


def judge(res, twin=None):
    """Violations of one program (twin = result of the all-cached variant of the same program)."""
    case, pkg = res["case"], res["pkg"]
    viols = []
    g_src = [c[1] for sp in res["desc"]["spaces"] if sp["path"] == res["desc"]["focus"]
             for c in sp["cells"] if c[0] == "g"]
    detail = {"g": g_src[0] if g_src else None, "model_description": res["desc"]}

    def bad(clause, observed, expected):
        viols.append({"clause": clause, "case": case, "observed": observed, "expected": expected,
                      "detail": detail})

    if res["export_error"] is not None:
        bad("export-raises", {"phase": "export", "error": res["export_error"]}, "model.export(path) succeeds")
        return viols
    if pkg["import_error"] is not None:
        bad("export-raises", {"phase": "import of the package without modelx", "error": pkg["import_error"]},
            "package imports")
    if pkg.get("modelx_attempts") or pkg.get("modelx_loaded"):
        bad("no-modelx", {"import_attempts": pkg.get("modelx_attempts"), "in_sys_modules": pkg.get("modelx_loaded")},
            "the package never imports modelx")
    if pkg["import_error"] is not None:
        return viols
    diffs = []
    for q in res["queries"]:
        mv, ev = res["model"][q], pkg["table"].get(q, ["exc", "NotRun", ""])
        if mv[0] != "ok":
            continue
        if ev[0] != "ok" or ev[1] != mv[1]:
            diffs.append((q, mv, ev))
    if diffs:
        q, mv, ev = diffs[0]
        bad("same-value", {"query": q, "package": ev, "differing_queries": len(diffs),
                           "all": [d[0] for d in diffs[:12]]}, {"query": q, "model": mv})
    elif twin is not None and twin is not res and twin.get("pkg") and twin["pkg"]["import_error"] is None \
            and twin["export_error"] is None:
        cd = []
        for q in res["queries"]:
            mv, mt = res["model"][q], twin["model"].get(q)
            if mv[0] != "ok" or mt is None or mt[0] != "ok" or mv[1] != mt[1]:
                continue
            ev, et = pkg["table"].get(q), twin["pkg"]["table"].get(q)
            if ev is None or et is None:
                continue
            if ev[:2] != et[:2]:
                cd.append((q, ev, et))
        if cd:
            q, ev, et = cd[0]
            bad("cached==uncached", {"query": q, "package_with_flags_%s" % case.get("V", "c"): ev,
                                     "differing_queries": len(cd)},
                {"query": q, "package_all_cached": et})
    return viols


def kind_of(v):
    o = v.get("observed") or {}
    if v["clause"] == "same-value":
        p = o.get("package", ["?"])
        return p[1] if p[0] == "exc" else "value"
    if v["clause"] == "export-raises":
        return (o.get("error") or ["?"])[0]
    return ""


def simplicity(case):
    return (STRUCT_ORDER.index(case["S"]), FLAGS.index(case.get("V", "c")), 0 if case["F"] == "lambda" else 1,
            ATOM_ORDER.index(case["A"]))


MAX_VIOLS_PER_ITEM = 4


# ----------------------------------------------------------------------------------------------
# enumeration

_ENUM = {}


def enumerate_cases(tier):
    """Deterministic list of all programs of the tier (coordinates without V) -> list of (base, [flags])."""
    if tier in _ENUM:
        return _ENUM[tier]
    progs = []
    seen = {}

    def add(S, C, A, F, flags):
        base = {"S": S, "C": C, "A": A, "F": F}
        if not valid(base):
            return
        k = (S, C, A, F)
        if k in seen:
            fl = seen[k]
            for f in flags:
                if f not in fl:
                    fl.append(f)
            return
        seen[k] = list(flags)
        progs.append((base, seen[k]))

    if tier == "quick":
        # block 1 (syntax): static structure, every context x form, core atoms
        for C, F in ALL_CF:
            for A in CORE_ATOMS:
                add("static", C, A, F, ["c"])
        # block 2 (structure): every structure x every atom, direct context, cached + all uncached
        for S in STRUCT_ORDER:
            for A in ATOM_ORDER:
                add(S, "direct", A, "lambda", ["c", "a"])
        # block 3: every structure x core atoms x the two other core contexts, g uncached
        for S in STRUCT_ORDER:
            for A in ("call", "rec", "param", "xref"):
                add(S, "listcomp", A, "lambda", ["c", "g"])
                add(S, "nesteddef", A, "def", ["c", "s"])
    else:
        for C, F in ALL_CF:
            for A in ATOM_ORDER:
                add("static", C, A, F, ["c", "g"])
        for S in STRUCT_ORDER:
            for A in ATOM_ORDER:
                for C, F in CORE_CTX + [("genexp", "def"), ("for", "def")]:
                    add(S, C, A, F, FLAGS)
        for S in ("item1d",):
            for C, F in ALL_CF:
                for A in ATOM_ORDER:
                    add(S, C, A, F, ["c"])
        # every context x form in every structure for the core atoms
        for S in STRUCT_ORDER:
            for C, F in ALL_CF:
                for A in ("call", "ref", "param", "rec"):
                    add(S, C, A, F, ["c", "g"])
    _ENUM[tier] = progs
    return progs


def work_items(tier, seed):
    progs = enumerate_cases(tier)
    per = 10 if tier == "quick" else 14          # base programs per item (each with 1-4 flag variants)
    items = []
    for k in range(0, len(progs), per):
        items.append({"programs": [[b, fl] for b, fl in progs[k:k + per]]})
    return items


def _on_item(q):
    inst = q.rsplit(".", 1)[0]              # "m.P[1].Q(2)" of "m.P[1].Q(2).g(0)"
    return "[" in inst or "(" in inst


def run_item(item, tier):
    cases = []
    for base, flags in item["programs"]:
        fl = list(flags)
        if any(f != "c" for f in fl) and "c" not in fl:
            fl.insert(0, "c")
        for V in fl:
            cases.append(dict(base, V=V))
    results = run_programs(cases)
    twins = {base_key(r["case"]): r for r in results if r["case"]["V"] == "c"}
    counts = {"programs": 0, "evaluations": 0, "model_raised_skipped": 0, "nontrivial_programs": 0,
              "queries_on_item_spaces": 0, "exported": 0, "violating_programs": 0, "violations_suppressed_dup": 0}
    outcomes = set()
    viols = []
    samples = []
    live = {"atoms": set(), "contexts": set(), "structures": set(), "flags": set()}
    for r in results:
        case = r["case"]
        counts["programs"] += 1
        if r["export_error"] is None:
            counts["exported"] += 1
        okq = [q for q in r["queries"] if r["model"][q][0] == "ok"]
        counts["evaluations"] += len(okq)
        counts["model_raised_skipped"] += len(r["queries"]) - len(okq)
        counts["queries_on_item_spaces"] += sum(1 for q in okq if _on_item(q))
        gq = [q for q in okq if q.rsplit(".", 1)[1].startswith("g(")]
        nontrivial = bool(gq) and case["A"] not in TRIVIAL_ATOMS
        if nontrivial:
            counts["nontrivial_programs"] += 1
        if gq:
            live["atoms"].add(case["A"])
            live["contexts"].add(case["C"] + "/" + case["F"])
            live["structures"].add(case["S"])
            live["flags"].add(case["V"])
        outcomes.add(digest(sorted(r["model"].items())))
        vs = judge(r, twins.get(base_key(case)))
        if vs:
            counts["violating_programs"] += 1
            viols.extend(vs)
        elif len(samples) < 2 and nontrivial and len(gq) >= 3:
            samples.append({"case": case, "g": g_source(case), "queries": len(r["queries"]),
                            "example": {q: r["model"][q][1][1] for q in gq[:3]}})
    # keep few, simplest-first, distinct (clause, context, observed kind) per item: all of them are shrunk
    viols.sort(key=lambda v: (simplicity(v["case"]), v["clause"]))
    kept, fps = [], set()
    for v in viols:
        fp = (v["clause"], v["case"]["C"], kind_of(v))
        if fp in fps or len(kept) >= MAX_VIOLS_PER_ITEM:
            counts["violations_suppressed_dup"] += 1
            continue
        fps.add(fp)
        kept.append(v)
    return {"counts": counts, "outcomes": sorted(outcomes), "violations": kept, "samples": samples,
            "extra": {"live_atoms_1": sorted(a for a in live["atoms"] if ATOM_ORDER.index(a) % 2 == 0),
                      "live_atoms_2": sorted(a for a in live["atoms"] if ATOM_ORDER.index(a) % 2 == 1),
                      "live_structures": sorted(live["structures"]),
                      "live_contexts_expr": sorted(c for c in live["contexts"] if c.split("/")[0] in EXPR_CTX),
                      "live_contexts_stmt": sorted(c for c in live["contexts"] if c.split("/")[0] in STMT_CTX),
                      "live_flags": sorted(live["flags"])}}


# ----------------------------------------------------------------------------------------------
# replay / shrinking / script

_CACHE = {}


def check_case(case):
    """Re-execute one program (deterministic, therefore memoised per process: shrinking revisits the same
    few small programs again and again)."""
    key = json.dumps(case, sort_keys=True)
    if key not in _CACHE:
        if len(_CACHE) > 5000:
            _CACHE.clear()
        _CACHE[key] = _check_case(case)
    return json.loads(json.dumps(_CACHE[key]))


def _check_case(case):
    case = dict(case)
    case.setdefault("V", "c")
    cases = [case]
    if case["V"] != "c":
        cases.append(dict(case, V="c"))
    results = run_programs(cases)
    twin = results[1] if len(results) > 1 else None
    return judge(results[0], twin)


def shrink_candidates(case):
    case = dict(case)
    V, S, C, A, F = case.get("V", "c"), case["S"], case["C"], case["A"], case["F"]
    drop = list(case.get("drop", []))
    out = []

    def cand(**kw):
        c = dict(case)
        c.update(kw)
        if "drop" in c and not c["drop"]:
            del c["drop"]
        if (kw.get("S", S) != S or kw.get("A", A) != A or kw.get("C", C) != C) and "drop" in c:
            del c["drop"]        # member identifiers belong to one expansion
        if valid(c) and c != case and c not in out:
            out.append(c)

    # canonical guesses first (atom alone / context alone in the simplest program): they are shared by many
    # violating programs, so the per-process memo of check_case answers most of them without executing anything
    f0 = lambda c: "lambda" if c in EXPR_CTX else "def"
    cand(S="static", C="direct", F="lambda", V="c")
    if V != "c":
        cand(S="static", C="direct", F="lambda")
    for C2 in CTX_FAMILY.get(C, []) + [C]:
        cand(S="static", C=C2, A="call", F=f0(C2), V="c")
    # big jump
    cand(S="static", V="c", F=f0(C))
    if V != "c":
        cand(V="c")
        if V in ("a", "s"):
            cand(V="g")
    for S2 in SIMPLER[S]:
        cand(S=S2)
    for C2 in CTX_FAMILY.get(C, []):
        cand(C=C2, F="lambda" if C2 in EXPR_CTX else "def")
    if C != "direct":
        cand(C="direct", F="lambda")
        cand(C="direct", F=F)
    if F == "def" and C in EXPR_CTX:
        cand(F="lambda")
    for A2 in ("arith", "call", "ref"):
        if ATOM_ORDER.index(A2) < ATOM_ORDER.index(A) or A2 == "call":
            if A2 != A:
                cand(A=A2)
    try:
        desc = expand(case)
        for d in droppable(desc):
            if d not in drop:
                cand(drop=drop + [d])
    except Exception:
        pass
    return out


def script(case):
    """Stand-alone reproduction (needs only modelx): build, export, import, print both values per query."""
    text = _script(case, "c15pkg")
    if case.get("V", "c") != "c":
        text += ("\n\n# ---- the same program with every cells cached: clause cached==uncached compares the two packages\n"
                 + _script(dict(case, V="c"), "c15pkg_cached"))
    return text


def _script(case, pkgname):
    desc = expand(case)
    qs = queries(desc)
    L = ["# C15 reproduction: %s" % json.dumps(case, sort_keys=True),
         "import sys, os, tempfile, shutil, importlib",
         "import modelx as mx",
         "m = mx.new_model('M')"]
    for n, lit in desc["mrefs"]:
        if not lit.startswith("obj:"):
            L.append("m.%s = %s" % (n, _lit_src(lit)))
    for sp in desc["spaces"]:
        path = sp["path"]
        parent = "m." + path.rsplit(".", 1)[0] if "." in path else "m"
        args = [repr(path.rsplit(".", 1)[-1])]
        if sp["bases"]:
            args.append("bases=[%s]" % ", ".join("m." + b for b in sp["bases"]))
        if sp["params"]:
            args.append("formula=%r" % ("lambda %s: None" % sp["params"]))
        L.append("%s.new_space(%s)" % (parent, ", ".join(args)))
    overrides = any(sp["bases"] and sp["cells"] for sp in desc["spaces"])
    if overrides:
        L += ["def define(space, name, src, cached):",
              "    if name in space.cells:      # override an inherited cells",
              "        space.cells[name].set_formula(src)",
              "        space.cells[name].is_cached = cached",
              "    else:",
              "        space.new_cells(name, formula=src, is_cached=cached)"]
    for sp in desc["spaces"]:
        for name, src, cached in sp["cells"]:
            if overrides:
                L.append("define(m.%s, %r, %r, %r)" % (sp["path"], name, src, bool(cached)))
            else:
                L.append("m.%s.new_cells(%r, formula=%r, is_cached=%r)" % (sp["path"], name, src, bool(cached)))
    for n, lit in desc["mrefs"]:
        if lit.startswith("obj:"):
            L.append("m.%s = m.%s" % (n, lit[4:]))
    for sp in desc["spaces"]:
        for r in sp["refs"]:
            if r[1] == "val":
                L.append("m.%s.set_ref(%r, %s, 'auto')" % (sp["path"], r[0], _lit_src(r[2])))
            elif r[1] == "same":
                L.append("m.%s.set_ref(%r, m.%s.refs[%r], 'auto')" % (sp["path"], r[0], sp["path"], r[2]))
            elif r[1] == "pandas":
                L.append("import pandas as pd")
                L.append("m.%s.new_pandas(%r, %r, %s, file_type=%r)" % (sp["path"], r[0], r[3], PANDAS_SRC[r[2]],
                                                                      r[4]))
            else:
                L.append("m.%s.set_ref(%r, m.%s, %r)" % (sp["path"], r[0], r[2], r[3]))
    L += ["root = tempfile.mkdtemp()",
          "try:",
          "    m.export(os.path.join(root, %r))" % pkgname,
          "    sys.path.insert(0, root)",
          "    nomx = importlib.import_module(%r).mx_model     # raises if the package is broken" % pkgname,
          "    def show(expr, obj):",
          "        try:",
          "            return repr(eval(expr, {'m': obj}))",
          "        except Exception as e:",
          "            return 'raises ' + type(e).__name__ + ': ' + str(e).splitlines()[0][:80]",
          "    for q in %r:" % (qs,),
          "        a, b = show(q, m), show(q, nomx)",
          "        print('%-34s model: %-22s package: %-40s %s' % (q, a, b, '' if a == b or a.startswith('raises') "
          "else '<-- DIFFERENT'))",
          "finally:",
          "    shutil.rmtree(root)"]
    return "\n".join(L)


# ----------------------------------------------------------------------------------------------
# evidence

def coverage(agg, tier):
    c = agg["counts"]
    progs = enumerate_cases(tier)
    nprog = sum(len(set(fl) | ({"c"} if any(f != "c" for f in fl) else set())) for _, fl in progs)
    return {
        "evaluations": c.get("evaluations", 0),
        "distinct_nontrivial": c.get("nontrivial_programs", 0),
        "programs": c.get("programs", 0),
        "programs_enumerated": nprog,
        "rule": "programs = structure{%d} x context/form{%d} x atom{%d} x cached-flags{c,g,a,s} restricted to the "
                "documented export subset (tier %s: see enumerate_cases); each exported, imported in a subprocess "
                "with modelx blocked, every cells x args {0,1,2,(p=1)} (+ (1,2),(2,0),(1,y=2),(x=2) for a default "
                "parameter) x instances {static,[1],(2),[1, 2],(2, j=2),(2, 1)} per parametrised level queried on "
                "both sides; evaluations = "
                "(program, query) pairs on which the model returned a value and the package was compared; "
                "distinct_nontrivial = programs whose formula under test returned a value on the model through "
                "another cells / reference / parameter (measured from the value tables)"
                % (len(STRUCTS), len(ALL_CF), len(ATOMS), tier),
        "exhaustive": True,
        "model_raised_skipped": c.get("model_raised_skipped", 0),
        "queries_on_item_spaces": c.get("queries_on_item_spaces", 0),
        "violating_programs": c.get("violating_programs", 0),
    }


def vacuity(agg, tier):
    c = agg["counts"]
    ex = agg.get("extra", {})
    progs = enumerate_cases(tier)
    nprog = sum(len(set(fl) | ({"c"} if any(f != "c" for f in fl) else set())) for _, fl in progs)
    if c.get("programs", 0) != nprog:
        return "programs run %s != programs enumerated %s" % (c.get("programs"), nprog)
    if c.get("nontrivial_programs", 0) < 0.5 * nprog:
        return "fewer than half of the programs are non-trivial"
    if c.get("queries_on_item_spaces", 0) < 100:
        return "too few comparisons inside ItemSpaces"
    used_atoms = {b["A"] for b, _ in progs}
    dead = sorted(used_atoms - set(ex.get("live_atoms_1", [])) - set(ex.get("live_atoms_2", [])))
    if dead:
        return "atoms whose formula never returns a value on the model: %s" % dead
    used_s = {b["S"] for b, _ in progs}
    dead = sorted(used_s - set(ex.get("live_structures", [])))
    if dead:
        return "structures never live: %s" % dead
    used_c = {b["C"] + "/" + b["F"] for b, _ in progs}
    livec = set(ex.get("live_contexts_expr", [])) | set(ex.get("live_contexts_stmt", []))
    dead = sorted(used_c - livec)
    if dead:
        return "contexts never live: %s" % dead
    return None
