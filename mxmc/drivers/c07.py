"""C07 ItemSpaces are parametrised, isolated, identity-stable instances of their base.

Roots: parameter signatures (i) / (i, j=0) / (), parameter formulas returning None / extra refs / another
base / _self, base with sibling-calling cells, a child space, a nested parametrised child.  BFS over
instantiation with every argument spelling, evaluations inside instances, inputs inside instances,
discarding instances, and every kind of edit of the base.  The harness keeps every handle it ever saw.
Oracle: reference evaluator (parameters and returned refs bound as names, sibling calls stay inside),
identity of instances for equal bound arguments, independence for different ones, live == fresh model
that replayed only the edits, old handles dead or identical to the current occupant.
"""
import json

import modelx as mx
from modelx.core.errors import DeletedObjectError
from modelx.core.system import mxsys

from mxmc import bfs, ops as O
from mxmc.refsem import Evaluator, obj
from mxmc.session import reset_world, observe, safe, digest, session_canon, render, space_path
from mxmc.drivers.c13 import reachable, probes, Handles

PROPERTY = "C07"
LEVEL = "model_checking"
ASSUMPTIONS = [
    "reference evaluator mxmc/refsem.py for values in instances (histories that assign inputs inside instances are "
    "judged by the live == fresh differential only)",
    "an old handle may be revived: modelx re-uses the interface object when an instance with the same arguments is "
    "re-created; the statement allows exactly that",
]
DEPTH = {"quick": 3, "thorough": 3}       # thorough: depth 3 on every root (quick: 3 on two roots, 2 on the others)


def py(code, edit=True):
    return {"op": "py", "code": code, "edit": edit}


CELLS_P = {"c": "lambda: i * 2 + r2", "d": "lambda x: c() + x"}

ROOTS = {
    "one": {"spaces": {"P": {"formula": "lambda i: None", "refs": {"r2": 1},
                             "cells": dict(CELLS_P, n={"src": "lambda: None", "allow_none": True}),
                             "spaces": {"T": {"refs": {"tq": 1},
                                              "cells": {"tc": "lambda: i + 100 + c2()", "c2": "lambda: 7",
                                                        "tr": "lambda: tq + i"}}}}},
            # model-level references of the same names as the space-level ones: the space-level ones win, in the
            # instances too
            "refs": {"G": 5, "r2": 1000, "tq": 2000},
            "inst": ["P[1]", "P(1)", "P(i=1)", "P[2]"], "same": [["P[1]", "P(1)", "P(i=1)"]],
            "probes": ["P[1].c()", "P[1].d(2)", "P[2].c()", "P[1].T.tc()", "P(i=1).d(0)", "P[1].n()", "P.n()", "P[1].T.tr()",
                       "P[1].T.tn"]},
    "two": {"spaces": {"P": {"formula": "lambda i, j=0: None", "refs": {"r2": 1},
                             "cells": {"c": "lambda: i * 2 + j + r2", "d": "lambda x: c() + x"}}},
            "refs": {"G": 5},
            "inst": ["P[1]", "P(1)", "P[1, 0]", "P(1, 0)", "P(1, j=0)", "P(j=0, i=1)", "P[1, 1]", "P(1, j=1)"],
            "same": [["P[1]", "P(1)", "P[1, 0]", "P(1, 0)", "P(1, j=0)", "P(j=0, i=1)"], ["P[1, 1]", "P(1, j=1)"]],
            "probes": ["P[1].c()", "P[1, 1].c()", "P(1, j=1).d(3)", "P[2].c()"]},
    "noparam": {"spaces": {"P": {"formula": "lambda: None", "refs": {"r2": 1},
                                 "cells": {"c": "lambda: 7 + r2", "d": "lambda x: c() + x"}}},
                "refs": {"G": 5},
                "inst": ["P()", "P[()]"], "same": [["P()", "P[()]"]],
                "probes": ["P().c()", "P().d(1)"]},
    "refs": {"spaces": {"P": {"formula": "lambda i: {'refs': {'k': i * 10, 'r2': 50}}", "refs": {"r2": 1},
                              "cells": {"c": "lambda: k + i + r2", "d": "lambda x: c() + x"}}},
             "refs": {"G": 5},
             "inst": ["P[1]", "P(1)", "P[2]"], "same": [["P[1]", "P(1)"]],
             "probes": ["P[1].c()", "P[2].d(1)"]},
    "base": {"spaces": {"Other": {"refs": {"r2": 3}, "cells": {"c": "lambda: i * 1000 + r2", "d": "lambda x: c() - x"}},
                        "P": {"formula": "lambda i: {'base': Other}", "refs": {"r2": 1, "Other": obj("Other")},
                              "cells": CELLS_P}},
             "refs": {"G": 5},
             "inst": ["P[1]", "P(1)", "P[2]"], "same": [["P[1]", "P(1)"]],
             "probes": ["P[1].c()", "P[1].d(1)", "P[2].c()"]},
    "self": {"spaces": {"P": {"formula": "lambda i: {'base': _self}", "refs": {"r2": 1}, "cells": CELLS_P}},
             "refs": {"G": 5},
             "inst": ["P[1]", "P(1)"], "same": [["P[1]", "P(1)"]],
             "probes": ["P[1].c()", "P[1].d(1)"]},
    "nested": {"spaces": {"P": {"formula": "lambda i: None", "refs": {"r2": 1}, "cells": CELLS_P,
                                "spaces": {"Q": {"formula": "lambda m: None",
                                                 "cells": {"qc": "lambda: i * 10 + m + r3"}, "refs": {"r3": 0}}}}},
               "refs": {"G": 5},
               "inst": ["P[1]", "P[1].Q[2]", "P(1).Q(2)", "P[1].Q(m=2)", "P[2].Q[2]"],
               "same": [["P[1].Q[2]", "P(1).Q(2)", "P[1].Q(m=2)"]],
               "probes": ["P[1].Q[2].qc()", "P[2].Q[2].qc()", "P[1].c()"]},
    # nested parametrised child whose parameter has the SAME name as the enclosing one (the inner value wins)
    "nestedsame": {"spaces": {"P": {"formula": "lambda i, k=7: None", "refs": {"r2": 1}, "cells": CELLS_P,
                                    "spaces": {"Q": {"formula": "lambda i: None",
                                                     "cells": {"qc": "lambda: i * 10 + k"},
                                                     "spaces": {"E": {"cells": {"ec": "lambda: i + 500"}}}}}}},
                   "refs": {"G": 5},
                   "inst": ["P[1]", "P[1].Q[5]", "P(1).Q(i=5)", "P[1].Q[6]", "P[2].Q[5]"],
                   "same": [["P[1].Q[5]", "P(1).Q(i=5)"]],
                   "distinct": [["P[1].Q[5]", "P[1].Q[6]"], ["P[1].Q[5]", "P[2].Q[5]"]],
                   "probes": ["P[1].Q[5].qc()", "P[1].Q[6].qc()", "P[2].Q[5].qc()", "P[1].Q[5].E.ec()", "P[1].c()",
                              "P[1].Q[5].i", "P[1].i"]},
    # same-named grandchildren under different children, and a child whose own child has the same name
    "grand": {"spaces": {"P": {"formula": "lambda i: None", "refs": {"r2": 1}, "cells": CELLS_P,
                               "spaces": {"B": {"spaces": {"C": {"cells": {"g": "lambda: i + 1000"}}}},
                                          "D": {"spaces": {"C": {"cells": {"g": "lambda: i + 2000"}}}},
                                          "Q": {"cells": {"g": "lambda: i + 3000"},
                                                "spaces": {"Q": {"cells": {"g": "lambda: i + 4000"}}}}}}},
              "refs": {"G": 5},
              "inst": ["P[1]", "P(1)", "P[1].B.C", "P[1].D.C", "P[1].Q", "P[1].Q.Q", "P[2]"],
              "same": [["P[1]", "P(1)"]],
              "distinct": [["P[1].B.C", "P[1].D.C"], ["P[1].Q", "P[1].Q.Q"]],
              "probes": ["P[1].B.C.g()", "P[1].D.C.g()", "P[1].Q.g()", "P[1].Q.Q.g()", "P[1].c()"]},
    # a parametrised sub space deriving its cells from a base
    "inherited": {"spaces": {"Base": {"refs": {"r2": 1}, "cells": {"foo": "lambda x: x + r2", "bar": "lambda: foo(1) * 2"}},
                             "P": {"bases": ["Base"], "formula": "lambda i: None"}},
                  "refs": {"G": 5},
                  "inst": ["P[1]", "P(1)", "P[2]"], "same": [["P[1]", "P(1)"]],
                  "probes": ["P[1].foo(3)", "P[2].bar()", "P.foo(3)", "Base.foo(3)"]},
}


def alphabet(rootname):
    r = ROOTS[rootname]
    ops = []
    for e in r["inst"]:
        ops.append(py("m." + e, False))
    for e in r["probes"]:
        ops.append(py("m." + e, False))
    first = r["inst"][0]
    ops += [
        py("m.%s.c[()] = 500" % first), py("m.%s.c.clear_all()" % first),
        py("del m." + first.replace("(1)", "[1]") if first.endswith("]") else "m.P.clear_items()"),
        py("m.P.clear_items()"), py("m.P.clear_all()"), py("m.clear_all()"),
        py("m.P.c.formula = 'lambda: 77'"), py("m.P.new_cells('e', formula='lambda: 3')"),
        py("del m.P.d"), py("m.P.c.rename('c9')"), py("m.P.r2 = 2"), py("del m.P.r2"), py("m.G = 6"),
        py("m.P.formula = 'lambda i, j=0, h=0: None'"), py("del m.P.formula"), py("m.P.rename('P9')"),
        py("m.P.c.is_cached = False"), py("m.P.c.allow_none = True"),
    ]
    if rootname == "base":
        ops += [py("m.Other.c.formula = 'lambda: i * 3'"), py("m.Other.r2 = 4"), py("del m.Other"),
                py("m.P.add_bases(m.Other)")]
    if rootname == "nested":
        ops += [py("m.P.Q.qc.formula = 'lambda: 88'"), py("m.P.Q.r3 = 9"), py("del m.P.Q"),
                py("m.P.Q.formula = 'lambda m, n=0: None'"), py("del m.P[1].Q[2]")]
    if rootname == "nestedsame":
        ops += [py("m.P.Q.qc.formula = 'lambda: i * 100 + k'"), py("m.P.Q.formula = 'lambda i, j=0: None'"),
                py("del m.P[1].Q[5]"), py("m.P.Q.E.ec.formula = 'lambda: i + 600'")]
    if rootname == "grand":
        ops = [o for o in ops if ".d" not in o["code"] and "c9" not in o["code"]]
        ops += [py("m.P.B.C.g.formula = 'lambda: i + 1001'"), py("m.P.Q.Q.g.formula = 'lambda: i + 4001'"),
                py("del m.P.D"), py("m.P.Q.g.is_cached = False")]
    if rootname == "inherited":
        ops = [o for o in ops if "m.P.c" not in o["code"] and "m.P.d" not in o["code"] and ".c[" not in o["code"]
               and ".c." not in o["code"]]
        ops += [py("m.Base.foo.formula = 'lambda x: x + r2 + 100'"), py("m.Base.foo.is_cached = False"),
                py("m.Base.r2 = 2"), py("m.Base.new_cells('baz', formula='lambda: 1')"), py("del m.Base.bar"),
                py("m.P.foo.formula = 'lambda x: x + 500'"), py("m.P.remove_bases(m.Base)"),
                py("m.Base.foo.rename('foo2')"), py("m.P[1].foo[3] = 77")]
    if rootname == "one":
        ops += [py("m.P.T.c2.formula = 'lambda: 8'"), py("del m.P.T"), py("m.P.T.new_cells('z', formula='lambda: 0')"),
                py("m.P.T.tq = 2"), py("m.P.T.tn = 3"), py("del m.P.T.tq"), py("m.P[1].T", False)]
    return ops


def build(rootname):
    reset_world()
    r = ROOTS[rootname]
    spec = {"refs": r["refs"], "spaces": r["spaces"]}
    m, rm = O.build_from_spec(spec)
    return m, rm


def ev_expr(m, e):
    return observe(lambda: eval("m." + e, {"m": m}))


def ref_expr(rm, e):
    """Evaluate 'P[1].d(2)' style probe on the reference evaluator."""
    ev = Evaluator(rm)

    class Root:
        pass
    from mxmc.refsem import ModelProxy
    mp = ModelProxy(ev)
    try:
        v = eval("m." + e, {"m": mp})
        return ("ok", render(v))
    except (KeyboardInterrupt, SystemExit):
        raise
    except BaseException as ex:
        return ("exc", type(ex).__name__)


_fresh_memo = {}


def fresh_values(rootname, edits):
    key = (rootname, json.dumps(edits, sort_keys=True))
    if key not in _fresh_memo:
        if len(_fresh_memo) > 50000:
            _fresh_memo.clear()
        m, _ = build(rootname)
        for op in edits:
            O.apply_impl(m, op)
        _fresh_memo[key] = [ev_expr(m, e) for e in ROOTS[rootname]["probes"]]
    return _fresh_memo[key]


def norm_exc(ob):
    """FormulaError:X and X are the same failure seen from inside / outside a formula."""
    if ob[0] == "exc":
        return ("exc", ob[1].split(":")[-1])
    return ob


def run_history(rootname, hist):
    m, rm = build(rootname)
    r = ROOTS[rootname]
    H = Handles()
    obs = []
    ref_ok = True
    for op in hist:
        ob = O.apply_impl(m, op)
        obs.append(ob[0])
        if op.get("edit", True):
            ref_ok = False      # reference definitions are only tracked for edit-free histories (see below)
        if mxsys.models.get("M") is not None:
            H.harvest(m)
    case = {"root": rootname, "history": hist}
    viols = []

    def bad(clause, observed, expected):
        viols.append({"clause": clause, "case": case, "observed": observed, "expected": expected})

    # ---- handles ------------------------------------------------------------------------------
    now = reachable(m)
    now_ids = {id(o): n for n, o in now.items()}
    for label, h in H.items:
        pr = probes(h)
        kinds = set(pr)
        if id(h) in now_ids:
            if "dead" in kinds:
                bad("handles-live", {"handle": label, "probes": pr}, "a reachable instance does not raise")
                break
        else:
            if kinds == {"dead"}:
                kinds = set(probes(h, with_call=True))
            if kinds != {"dead"}:
                bad("handles-dead", {"handle": label, "probes": sorted(kinds)},
                    "an old handle raises DeletedObjectError or is the current instance")
                break
    canon = session_canon(extra={"handles": len(H.items)}, with_graph=False)
    # ---- identity -------------------------------------------------------------------------------
    if not viols:
        groups = []
        for grp in r["same"]:
            objs = [safe(lambda e=e: eval("m." + e, {"m": m})) for e in grp]
            if any(isinstance(o, str) for o in objs):
                continue        # not instantiable in this state (e.g. P deleted / signature changed)
            if any(o is not objs[0] for o in objs):
                bad("identity", {"spellings": grp, "same": [o is objs[0] for o in objs]},
                    "arguments that bind equally give the same instance")
                break
            groups.append(objs[0])
        if not viols and len(groups) == 2 and groups[0] is groups[1]:
            bad("identity-distinct", {"groups": r["same"]}, "different arguments give different instances")
        for pair in r.get("distinct", []):
            if viols:
                break
            objs = [safe(lambda e=e: eval("m." + e, {"m": m})) for e in pair]
            if any(isinstance(o, str) for o in objs):
                continue
            if objs[0] is objs[1]:
                bad("identity-distinct", {"expressions": pair}, "different spaces of the dynamic tree are different objects")
        # old handles that are alive must be the object currently returned for their name
        if not viols:
            now2 = reachable(m)
            for label, h in H.items:
                name = label.split("#")[0]
                if safe(lambda: h._is_valid()) is True and "[" in name:
                    cur = now2.get(safe(lambda: space_path(h)) if not isinstance(h, mx.core.cells.Cells)
                                   else safe(lambda: space_path(h.parent) + "." + h.name))
                    if cur is not None and cur is not h:
                        bad("handles-current", {"handle": label}, "a live old handle is the current instance")
                        break
    # ---- values -----------------------------------------------------------------------------------
    if not viols:
        live = [ev_expr(m, e) for e in r["probes"]]
        edits = [op for op in hist if op.get("edit", True)]
        fresh = fresh_values(rootname, edits)
        if [norm_exc(a) for a in live] != [norm_exc(b) for b in fresh]:
            i = [k for k, (a, b) in enumerate(zip(live, fresh)) if norm_exc(a) != norm_exc(b)][0]
            bad("fresh", {"probe": r["probes"][i], "live": live[i]}, {"fresh": fresh[i]})
        elif ref_ok:
            for e, lv in zip(r["probes"], live):
                rv = ref_expr(rm, e)
                if norm_exc(lv) != norm_exc(rv):
                    bad("value", {"probe": e, "live": lv}, {"reference": rv})
                    break
            # independence: an input in one instance does not show in another
    return canon, viols, digest(obs), {"ref": ref_ok}


def work_items(tier, seed):
    items = []
    for rn in ROOTS:
        for op in alphabet(rn):
            items.append({"root": rn, "first": op})
    return items


def run_item(item, tier):
    rn = item["root"]
    alpha = alphabet(rn)
    depth = DEPTH[tier]
    if tier == "quick" and rn not in ("one", "nested"):
        depth -= 1
    if tier == "thorough" and rn == "one" and not item["first"].get("edit", True):
        depth += 1      # depth 4 below the evaluation / instantiation ops of the richest root
    res = bfs.explore(lambda h: run_history(rn, h), lambda h, i: alpha, depth, prefix=[item["first"]],
                      merge=False)
    res.samples = [{"root": rn, "history": h} for h in res.samples[:1]]
    return res.as_item_result()


def check_case(case):
    _fresh_memo.clear()
    return run_history(case["root"], case["history"])[1]


def shrink_candidates(case):
    h = case["history"]
    for i in range(len(h)):
        yield {"root": case["root"], "history": h[:i] + h[i + 1:]}


def script(case):
    r = ROOTS[case["root"]]
    L = [O.spec_to_python({"refs": r["refs"], "spaces": r["spaces"]})]
    for op in case["history"]:
        L.append("try:\n    print(%s)\nexcept Exception as e:\n    print('raised', type(e).__name__)" % op["code"]
                 if not op.get("edit", True) else
                 "try:\n    %s\nexcept Exception as e:\n    print('raised', type(e).__name__)" % op["code"])
    for e in r["probes"]:
        L.append("try:\n    print(%r, m.%s)\nexcept Exception as e:\n    print(%r, 'raised', type(e).__name__)" % (e, e, e))
    return "\n".join(L)


def coverage(agg, tier):
    c = agg["counts"]
    return {"states": c.get("states", 0), "transitions": c.get("transitions", 0),
            "traces_validated_against_impl": c.get("transitions", 0), "depth": DEPTH[tier],
            "roots": len(ROOTS), "alphabet_sizes": {r: len(alphabet(r)) for r in ROOTS}, "exhaustive": True,
            "note": "histories are not merged (the handle table is part of the state)"}


def vacuity(agg, tier):
    if agg["counts"].get("transitions", 0) < 5000:
        return "too few transitions"
