"""C08 Reported dependencies are exactly the calls made; graph and cache agree.

Same histories as C02 (edits, evaluations, cache hits; failed evaluations come from NameErrors after
deletions).  After every history, for every element holding a value: preds()/succs()/precedents()
are compared with the reference evaluator's call tree under the current definitions, and the
dependency graph with the set of held elements.
"""
import dis
import json

import networkx as nx

from mxmc import bfs, ops as O
from mxmc.evalfam import ROOTS, World, canon_world, held_elems, item_elems, RefTrees
from mxmc.refsem import direct_cached_preds, is_obj
from mxmc.session import digest, node_name, safe, render

PROPERTY = "C08"
LEVEL = "model_checking"
ASSUMPTIONS = [
    "reference call trees come from mxmc/refsem.py evaluated under the reference definitions tracked by "
    "ops.apply_ref; histories whose edits the reference model does not define are judged on the graph/cache "
    "clauses only (counted as ref_undefined)",
    "precedents(): only containment of the references actually read is demanded",
]
DEPTH = {"quick": 3, "thorough": 4}


def _loaded_names(src):
    try:
        s = src.strip()
        code = compile(s, "<c08>", "eval") if s.startswith("lambda") else compile(src, "<c08>", "exec")
    except SyntaxError:
        return set()
    names = set()

    def rec(co):
        for ins in dis.get_instructions(co):
            if ins.opname in ("LOAD_GLOBAL", "LOAD_NAME"):
                names.add(ins.argval)
        for c in co.co_consts:
            if hasattr(c, "co_code"):
                rec(c)
    rec(code)
    return names


def graph_checks(w, bad):
    m = w.m
    tg = m._impl.tracegraph
    held = held_elems(m)
    heldset = {h["elem"] for h in held}
    items = item_elems(m)
    itemset = {(p, k) for p, k, _, _ in items}
    keyed = set()
    for n in tg.nodes:
        if len(n) > 1:
            keyed.add(safe(lambda: node_name(n)))
    if keyed != heldset | itemset:
        bad("nodes==held", {"graph_only": sorted(map(list, keyed - heldset - itemset)),
                            "held_only": sorted(map(list, (heldset | itemset) - keyed))},
            "key-carrying graph nodes == held elements + live ItemSpaces")
    if not nx.is_directed_acyclic_graph(tg):
        bad("acyclic", "cycle in tracegraph", "acyclic")
    # no node mentions a deleted / replaced object
    for n in tg.nodes:
        objimpl = n[0]
        ok = safe(lambda: objimpl.interface._impl is objimpl)
        if ok is not True:
            bad("no-dead", {"node": safe(lambda: list(node_name(n))), "valid": ok}, "live object")
            break
    return held, items


def run_history(rootname, hist, warm=False):
    w = World(rootname, warm=warm)
    obs = [w.apply(op) for op in hist]
    canon = canon_world(w)
    viols = []
    case = {"root": rootname, "history": hist, "warm": warm}

    def bad(clause, observed, expected):
        viols.append({"clause": clause, "case": case, "observed": observed, "expected": expected})

    held, items = graph_checks(w, bad)
    info = {"ref": w.rm is not None, "held": len(held)}
    npreds = 0
    if not viols:
        # succs is the inverse of preds (impl-internal consistency through the public API)
        pred_of = {}
        for h in held:
            ps = safe(lambda: h["cells"].preds(*h["key"]))
            if isinstance(ps, str):
                bad("preds-raises", {"elem": list(h["elem"]), "error": ps}, "a list")
                break
            pred_of[h["elem"]] = {node_name(p._impl) for p in ps}
            npreds += len(ps)
        for p, k, s, key in items:
            ps = safe(lambda: s.preds(*key))
            if isinstance(ps, str):
                bad("preds-raises", {"elem": [p, k], "error": ps}, "a list")
                break
            pred_of[(p, k)] = {node_name(x._impl) for x in ps}
        if not viols:
            for h in held:
                ss = safe(lambda: h["cells"].succs(*h["key"]))
                if isinstance(ss, str):
                    bad("succs-raises", {"elem": list(h["elem"]), "error": ss}, "a list")
                    break
                got = {node_name(x._impl) for x in ss}
                exp = {e for e, ps in pred_of.items() if h["elem"] in ps}
                if got != exp:
                    bad("succs", {"elem": list(h["elem"]), "succs": sorted(map(list, got))},
                        {"inverse_of_preds": sorted(map(list, exp))})
                    break
    if not viols and w.rm is not None:
        rt = RefTrees(w.rm)
        for h in held:
            exp_preds, exp_refs = None, None
            if h["is_input"]:
                exp_preds = set()
            else:
                r = rt.tree(h["inst"], h["c"], h["key"])
                if r[0] != "ok" or not r[2]:
                    info["ref_raises"] = info.get("ref_raises", 0) + 1
                    continue
                root = r[2][-1]
                if render(root.value) != h["value"]:
                    # a held value differing from the reference is C02/C01's business, not judged here
                    info["value_differs"] = info.get("value_differs", 0) + 1
                    continue
                ps, unc = direct_cached_preds(root)
                exp_preds = set(ps) | {(u, "null") for u in unc}
                exp_refs = set()
                # attribute-path reads by the element's own formula
                for (sp, name) in root.reads:
                    if sp == "":
                        if name in w.rm.refs and not is_obj(w.rm.refs[name]) and name != "tick":
                            exp_refs.add(name)
                    else:
                        ip = sp
                        try:
                            inst = rt.ev.instance(ip)
                            refs = w.rm.refs_of(inst.defpath)
                        except Exception:
                            continue
                        if name in refs and not is_obj(refs[name][1]) and not inst.is_dynamic():
                            exp_refs.add(refs[name][0] + "." + name if refs[name][0] == inst.defpath else None)
                exp_refs.discard(None)
                # references read by name: names loaded by the element's own formula that resolve to a
                # value-reference of its space (own or derived) or of the model
                try:
                    inst0 = rt.ev.instance(h["inst"])
                    if not inst0.is_dynamic():
                        definer, cdef = w.rm.cells_of(inst0.defpath)[h["c"]]
                        srefs = w.rm.refs_of(inst0.defpath)
                        for nm in _loaded_names(cdef.src):
                            if nm in w.rm.cells_of(inst0.defpath) or nm in w.rm.space(inst0.defpath).children:
                                continue
                            if nm in srefs:
                                if not is_obj(srefs[nm][1]):
                                    exp_refs.add(inst0.defpath + "." + nm)
                            elif nm in w.rm.refs and not is_obj(w.rm.refs[nm]):
                                exp_refs.add(nm)
                except Exception:
                    pass
            got = pred_of.get(h["elem"])
            if got is None:
                continue
            if got != exp_preds:
                bad("preds", {"elem": list(h["elem"]), "preds": sorted(map(list, got))},
                    {"reference": sorted(map(list, exp_preds))})
                break
            if exp_refs:
                pr = safe(lambda: h["cells"].precedents(*h["key"]))
                if isinstance(pr, str):
                    bad("precedents-raises", {"elem": list(h["elem"]), "error": pr}, "a list")
                    break
                names = set()
                for p in pr:
                    o = p._impl[0]
                    nm = safe(lambda: o.get_fullname(omit_model=True))
                    names.add(nm)
                if not exp_refs <= names:
                    bad("precedents", {"elem": list(h["elem"]), "precedents": sorted(map(str, names))},
                        {"must_contain": sorted(exp_refs)})
                    break
    info["npreds"] = npreds
    return canon, viols, digest([obs, sorted(h["elem"] for h in held), npreds]), info


def _spec_uncached():
    out = {}
    for name, r in ROOTS.items():
        acc = []

        def rec(prefix, d):
            for n, sd in d.items():
                for cn, cd in sd.get("cells", {}).items():
                    if isinstance(cd, dict) and cd.get("cached") is False:
                        acc.append((prefix + n, cn))
                rec(prefix + n + ".", sd.get("spaces", {}))
        rec("", r["spec"]["spaces"])
        out[name] = acc
    return out


SPEC_UNCACHED = _spec_uncached()


def enabled_for(rootname):
    r = ROOTS[rootname]
    alphabet = r["edits"] + r["evals"]

    def enabled(hist, info):
        last = hist[-1] if hist else None
        from mxmc.evalfam import prune_noop_flags
        return [op for op in prune_noop_flags(hist, alphabet, SPEC_UNCACHED.get(rootname, ())) if op != last]
    return enabled


def work_items(tier, seed):
    items = []
    for name, r in ROOTS.items():
        for op in r["evals"] + r["edits"]:
            items.append({"root": name, "first": op, "warm": False})
        for op in r["edits"]:
            items.append({"root": name, "first": op, "warm": True})
    return items


def run_item(item, tier):
    name = item["root"]
    stats = {"ref_defined": 0, "ref_undefined": 0, "preds_checked": 0}

    warm = item.get("warm", False)

    def rh(h):
        c, v, d, info = run_history(name, h, warm)
        stats["ref_defined" if info["ref"] else "ref_undefined"] += 1
        stats["preds_checked"] += info.get("npreds", 0)
        return c, v, d, info
    res = bfs.explore(rh, enabled_for(name), (DEPTH[tier] - 1) if warm else DEPTH[tier], prefix=[item["first"]])
    res.samples = [{"root": name, "history": h, "warm": warm} for h in res.samples]
    out = res.as_item_result()
    out["counts"].update(stats)
    return out


def check_case(case):
    return run_history(case["root"], case["history"], case.get("warm", False))[1]


def shrink_candidates(case):
    h = case["history"]
    for i in range(len(h)):
        yield dict(case, history=h[:i] + h[i + 1:])
    if case.get("warm"):
        yield dict(case, warm=False)


def script(case):
    r = ROOTS[case["root"]]
    pre = O.spec_to_python(r["spec"])
    if case.get("warm"):
        pre += "\n" + "\n".join(O.op_to_python(p) for p in r["probes"])
    return pre + "\n" + "\n".join(O.op_to_python(o) for o in case["history"]) + \
        "\nprint(list(m.tracegraph.nodes)); print(list(m.tracegraph.edges))"


def coverage(agg, tier):
    c = agg["counts"]
    return {"states": c.get("states", 0), "transitions": c.get("transitions", 0),
            "traces_validated_against_impl": c.get("transitions", 0), "merged": c.get("merged", 0),
            "depth": DEPTH[tier], "roots": len(ROOTS), "exhaustive": True,
            "histories_with_reference_model": c.get("ref_defined", 0),
            "histories_graph_clauses_only": c.get("ref_undefined", 0),
            "pred_edges_checked": c.get("preds_checked", 0)}


def vacuity(agg, tier):
    c = agg["counts"]
    if c.get("preds_checked", 0) < 1000 or c.get("ref_defined", 0) < 1000:
        return "too few dependency edges checked against the reference: %s" % c
