"""C06 A value edit discards exactly its dependents; inputs persist.

Roots: all DAGs on n elements (two encodings, uncached subsets) x recalc option {off, on}.
BFS over query / assign / overwrite / clear_at / clear / clear_all / del-value / reference change.
Oracle: the reference evaluator's call trees under the definitions *before* the edit say which held
elements were computed (transitively) from the edited element; held set after the edit must be exactly
the others; kept elements are served without formula starts; inputs persist.
"""
import itertools
import json

import modelx as mx
from mxmc import bfs, ops as O
from mxmc.evalfam import held_elems, RefTrees, q, set_input, cl, set_ref
from mxmc.session import reset_world, TICK, digest, render, session_canon, observe
from mxmc.drivers.c16 import all_dags

PROPERTY = "C06"
LEVEL = "model_checking"
ASSUMPTIONS = [
    "dependents are computed by the reference evaluator (mxmc/refsem.py) from the definitions and inputs "
    "in force before the edit; static control flow",
    "formula starts observed through tick()",
]
DEPTH = {"quick": 4, "thorough": 5}


def spec_of(root):
    n, edges, enc, unc = root["n"], [tuple(e) for e in root["edges"]], root["enc"], set(root.get("uncached", []))
    preds = [[j for (j, k) in edges if k == i] for i in range(n)]
    z = "_space.z" if root.get("zref") == "attr" else "z"    # reference read by name / by attribute path
    if enc == "A":
        cells = {"v": "lambda i: tick() + %s + 1 + 7 * i + sum(v(j) for j in PREDS[i])" % z}
        refs = {"PREDS": {"list": preds}, "z": 0}
    else:
        cells = {}
        for i in range(n):
            # "attr2": two references read by attribute path - z by the last element, z2 by the others
            zi = ("_space.z" if i == n - 1 else "_space.z2") if root.get("zref") == "attr2" else z
            body = " + ".join(["tick()", zi, str(1 + 7 * i)] + ["e%d()" % j for j in preds[i]])
            cells["e%d" % i] = {"src": "lambda: " + body, "cached": i not in unc}
        refs = {"z": 0, "z2": 0} if root.get("zref") == "attr2" else {"z": 0}
    sd = {"refs": refs, "cells": cells}
    if root.get("none"):
        sd["allow_none"] = True     # None is an assignable value: a held None is a value like any other
    return {"refs": {"tick": "<tick>"}, "spaces": {"S": sd}}


def elem_ops(root):
    """alphabet"""
    n, enc, unc = root["n"], root["enc"], set(root.get("uncached", []))
    ops = []
    for i in range(n):
        c, a = ("v", [i]) if enc == "A" else ("e%d" % i, [])
        ops.append(q("S", c, *a))
        if i in unc:
            continue
        if enc == "B" or i == 0:
            # re-assigning the (same) formula discards every value of the cells, inputs included
            src = spec_of(root)["spaces"]["S"]["cells"][c]
            src = src["src"] if isinstance(src, dict) else src
            ops.append({"op": "set_formula", "sp": "S", "c": c, "src": src})
        ops.append(set_input("S", c, a, 100 + i))
        ops.append(set_input("S", c, a, 200 + i))
        if root.get("none"):
            ops.append(set_input("S", c, a, None))
        ops.append(cl("clear_at", "S", c, *a))
        if enc == "B":
            ops.append(cl("clear", "S", c))
            if i == n - 1:
                ops.append(cl("clear_all", "S", c))
                ops.append({"op": "del_value", "sp": "S", "c": c})
    if enc == "A":
        ops.append(cl("clear", "S", "v"))
        ops.append(cl("clear_all", "S", "v"))
    ops.append(set_ref("S", "z", 1000))
    if root.get("zref") == "attr2":
        ops.append(set_ref("S", "z2", 2000))
    return ops


def elem_of(op):
    key = tuple(op.get("args", [])) if op["c"] == "v" else ()
    return ("S." + op["c"], json.dumps(render(key)))


def build(root):
    reset_world()
    spec = spec_of(root)
    # PREDS must be a real list for the implementation and the reference
    m, rm = O.build_from_spec(spec)
    if root["enc"] == "A":
        rm.space("S").refs["PREDS"] = (spec["spaces"]["S"]["refs"]["PREDS"]["list"], "auto")
    mx.set_recalc(bool(root.get("recalc")))
    return m, rm


def snapshot(m, rm=None):
    """Held elements; when the reference model is given, `is_input` is the REFERENCE's notion (assigned by the
    user and not cleared since) and `impl_is_input` what the implementation says."""
    hs = held_elems(m)
    out = {h["elem"]: h for h in hs}
    if rm is not None:
        for e, h in out.items():
            h["impl_is_input"] = h["is_input"]
            sp = rm.space(h["inst"])
            h["is_input"] = h["c"] in sp.cells and tuple(h["key"]) in sp.cells[h["c"]].inputs
    return out


def run_history(root, hist):
    m, rm = build(root)
    viols = []
    obs = []
    case = {"root": root, "history": hist}

    def bad(clause, observed, expected):
        viols.append({"clause": clause, "case": case, "observed": observed, "expected": expected})

    nontrivial = 0
    for idx, op in enumerate(hist):
        last = idx == len(hist) - 1
        before = snapshot(m, rm) if last else None
        rt_before = RefTrees(rm) if last else None
        # closures before the edit (inputs cut the trees)
        deps = {}
        if last and O.is_edit(op) and op["op"] != "set_ref":
            for e, h in before.items():
                if h["is_input"]:
                    deps[e] = {e}
                else:
                    clo = rt_before.closure(h["inst"], h["c"], h["key"])
                    deps[e] = clo if clo is not None else {e}
        TICK.take_log()
        ob = O.apply_impl(m, op)
        log = TICK.take_log()
        obs.append(ob)
        if ob[0] == "ok" and O.is_edit(op):
            O.apply_ref(rm, op)
        if not last:
            continue
        after = snapshot(m, rm)
        k = op["op"]
        if ob[0] == "ok":
            # the implementation's input flag of every held element agrees with the reference
            wrong = sorted(list(e) for e, h in after.items() if h["impl_is_input"] != h["is_input"])
            if wrong:
                bad("is-input", {"op": op, "elements": wrong,
                                 "impl_says_input": [after[tuple(e)]["impl_is_input"] for e in wrong]},
                    "is_input is True exactly for elements assigned by the user and not cleared since")
                break
        if ob[0] != "ok":
            if k == "q":
                # (an assigned None makes the dependents' arithmetic fail: the reference evaluation fails alike)
                rq = RefTrees(rm).tree("S", op["c"], tuple(op.get("args", [])))
                if rq[0] == "ok":
                    bad("query-raises", {"op": op, "result": ob}, "a value")
            # a rejected edit (e.g. del_value on nothing) is C11's business
            break
        rt = RefTrees(rm)
        if k == "q":
            e = elem_of(op)
            r = rt.tree("S", op["c"], tuple(op.get("args", [])))
            exp = ("ok", render(r[1])) if r[0] == "ok" else ("exc", type(r[1]).__name__)
            if ob != exp:
                bad("value", {"op": op, "got": ob}, {"reference": exp})
            restarted = [x for x in log if x in before]
            if restarted:
                bad("kept-not-rerun", {"op": op, "restarted": restarted}, "held elements are served from cache")
            break
        if k == "set_ref":
            # inputs persist over reference changes
            for e, h in before.items():
                if h["is_input"] and (e not in after or not after[e]["is_input"] or after[e]["value"] != h["value"]):
                    bad("inputs-refchange", {"lost": list(e)}, "inputs survive reference changes")
            if not viols:
                # whatever is still held after the reference change is current (reference value)
                for e, h in sorted(after.items()):
                    if h["is_input"]:
                        continue
                    r = rt.tree(h["inst"], h["c"], h["key"])
                    if r[0] != "ok" or render(r[1]) != h["value"]:
                        bad("value-refchange", {"elem": list(e), "held": h["value"]},
                            {"reference": render(r[1]) if r[0] == "ok" else "raises"})
                        break
            break
        # ---- value edits -----------------------------------------------------------------
        edited = set()
        new_inputs = {}
        if k == "set_input":
            e = elem_of(op)
            edited = {e}
            new_inputs[e] = render(op["v"])
        elif k in ("clear_at", "del_value"):
            edited = {elem_of(op)} & set(before)
        elif k == "clear":
            edited = {e for e, h in before.items() if e[0] == "S." + op["c"] and not h["is_input"]}
        elif k in ("clear_all", "set_formula"):
            edited = {e for e, h in before.items() if e[0] == "S." + op["c"]}
        discarded = {h for h, clo in deps.items() if clo & edited}
        if k == "set_input":
            discarded |= edited & set(before)
        kept = set(before) - discarded
        nontrivial = int(bool(discarded - edited))
        recalc = bool(root.get("recalc")) and k == "set_input"
        exp_after = set(kept) | set(new_inputs)
        if recalc:
            exp_after |= (discarded - edited)
        got_after = set(after)
        if got_after != exp_after:
            bad("exact-discard" if not recalc else "recalc-held",
                {"op": op, "held_before": sorted(map(list, before)), "held_after": sorted(map(list, got_after))},
                {"held_after": sorted(map(list, exp_after))})
            break
        # inputs: previous inputs (not edited) persist unchanged; assigned value is what is served
        for e, h in before.items():
            if h["is_input"] and e in kept:
                if not after[e]["is_input"] or after[e]["value"] != h["value"]:
                    bad("inputs", {"elem": list(e), "after": after[e]["value"]}, h["value"])
        for e, v in new_inputs.items():
            if not after[e]["is_input"] or after[e]["value"] != v:
                bad("inputs", {"elem": list(e), "after": after[e]["value"], "is_input": after[e]["is_input"]}, v)
        if viols:
            break
        if recalc:
            # recomputed dependents hold the values lazy recomputation gives; nothing else was started
            started = set(log)
            extra = {s for s in started if s not in discarded and not _uncached(root, s)}
            if extra:
                bad("recalc-started", {"op": op, "started": sorted(map(list, started))},
                    {"only": sorted(map(list, discarded))})
            for e in discarded - edited:
                h = after[e]
                r = rt.tree(h["inst"], h["c"], h["key"])
                if r[0] != "ok" or render(r[1]) != h["value"]:
                    bad("recalc-value", {"elem": list(e), "value": h["value"]},
                        {"reference": render(r[1]) if r[0] == "ok" else "raises"})
        else:
            if k != "set_input" and log:
                bad("edit-runs-formula", {"op": op, "started": log}, "no formula runs on a clearing edit")
        if viols:
            break
        # kept elements are served without running a formula, and with the reference value
        TICK.take_log()
        for e in sorted(got_after):
            h = after[e]
            v = observe(lambda: h["cells"](*h["key"]))
            lg = TICK.take_log()
            if lg:
                bad("kept-not-rerun", {"elem": list(e), "started": lg}, "no formula start")
                break
            r = rt.tree(h["inst"], h["c"], h["key"])
            exp = ("ok", render(r[1])) if r[0] == "ok" else ("exc", "FormulaError:" + type(r[1]).__name__)
            if v != exp:
                bad("value", {"elem": list(e), "got": v}, {"reference": exp})
                break
    canon = session_canon(with_graph=True)
    return canon, viols, digest([obs]), {"nontrivial": nontrivial}


def _uncached(root, elem):
    if root["enc"] != "B":
        return False
    try:
        return int(elem[0].split(".e")[1]) in set(root.get("uncached", []))
    except Exception:
        return False


def roots(tier):
    nmax = 3 if tier == "quick" else 4
    out = []
    for n in range(1, nmax + 1):
        for edges in all_dags(n):
            if n == nmax and tier == "thorough" and len(edges) < 2:
                continue
            for recalc in (False, True):
                out.append({"n": n, "edges": edges, "enc": "A", "uncached": [], "recalc": recalc})
                out.append({"n": n, "edges": edges, "enc": "B", "uncached": [], "recalc": recalc})
                if n <= 2 or len(edges) == n - 1:
                    out.append({"n": n, "edges": edges, "enc": "B", "uncached": [], "recalc": recalc, "zref": "attr"})
                    if not recalc:
                        out.append({"n": n, "edges": edges, "enc": "A", "uncached": [], "recalc": recalc, "zref": "attr"})
                if n >= 2 and edges and not recalc and any(k == n - 1 for (j, k) in edges):
                    # two references: a value cleared through one of them must not stay registered with the other
                    out.append({"n": n, "edges": edges, "enc": "B", "uncached": [], "recalc": False, "zref": "attr2"})
                if n >= 2 and edges:
                    for u in range(n):
                        # an uncached element is interesting only if it has a dependent
                        if any(j == u for (j, k) in edges):
                            out.append({"n": n, "edges": edges, "enc": "B", "uncached": [u], "recalc": recalc})
    # None as an assigned value (allow_none on the space)
    for n, edges in ((2, [[0, 1]]), (3, [[0, 1], [1, 2]]), (3, [[0, 2], [1, 2]])):
        for enc in ("A", "B"):
            out.append({"n": n, "edges": edges, "enc": enc, "uncached": [], "recalc": False, "none": True})
    # two consecutive uncached elements between an edited element and a cached dependent
    for recalc in (False, True):
        out.append({"n": 4, "edges": [[0, 1], [1, 2], [2, 3]], "enc": "B", "uncached": [1, 2], "recalc": recalc,
                    "deep": True})
    if tier == "quick":
        # longer chains: a 4-chain and a 4-diamond (dependents two and three levels away)
        for edges in ([[0, 1], [1, 2], [2, 3]], [[0, 1], [0, 2], [1, 3], [2, 3]]):
            for enc in ("A", "B"):
                out.append({"n": 4, "edges": edges, "enc": enc, "uncached": [], "recalc": False, "deep": True})
    return out


def work_items(tier, seed):
    # one item per root (merging is what keeps the search small); biggest roots first
    rs = sorted(roots(tier), key=lambda r: (-r["n"], -len(r["edges"])))
    return [{"root": r} for r in rs]


def run_item(item, tier):
    root = item["root"]
    alphabet = elem_ops(root)
    nt = [0]

    def rh(h):
        c, v, d, info = run_history(root, h)
        nt[0] += info["nontrivial"]
        return c, v, d, info

    def enabled(hist, info):
        return alphabet
    depth = DEPTH[tier] if root["n"] <= 2 else DEPTH[tier] - 1
    if root.get("deep"):
        # quick tier: n=4 chain / diamond from the warm state (all elements evaluated first), value edits only
        alphabet = [o for o in alphabet if o["op"] != "set_input" or o["v"] < 200]
        q_all = [o for o in alphabet if o["op"] == "q"]
        res = bfs.explore(rh, enabled, len(q_all) + 2, prefix=q_all)
        res.samples = [{"root": root, "history": h} for h in res.samples[:1]]
        out = res.as_item_result()
        out["counts"]["edits_with_dependents_discarded"] = nt[0]
        return out
    res = bfs.explore(rh, enabled, depth, prefix=[item["first"]] if "first" in item else [])
    res.samples = [{"root": root, "history": h} for h in res.samples[:1]]
    out = res.as_item_result()
    out["counts"]["edits_with_dependents_discarded"] = nt[0]
    return out


def check_case(case):
    return run_history(case["root"], case["history"])[1]


def shrink_candidates(case):
    h = case["history"]
    for i in range(len(h) - 1):
        yield {"root": case["root"], "history": h[:i] + h[i + 1:]}
    r = case["root"]
    for kk in range(len(r["edges"])):
        yield {"root": dict(r, edges=r["edges"][:kk] + r["edges"][kk + 1:]), "history": h}
    if r.get("uncached"):
        yield {"root": dict(r, uncached=[]), "history": h}


def script(case):
    spec = spec_of(case["root"])
    if case["root"]["enc"] == "A":
        spec["spaces"]["S"]["refs"]["PREDS"] = spec["spaces"]["S"]["refs"]["PREDS"]["list"]
    pre = "import modelx as mx\nmx.set_recalc(%r)\n" % bool(case["root"].get("recalc"))
    return pre + O.history_script(spec, case["history"]).replace("import modelx as mx\n", "") + \
        "\nprint({n: dict(c) for n, c in m.S.cells.items()})"


def coverage(agg, tier):
    c = agg["counts"]
    return {"states": c.get("states", 0), "transitions": c.get("transitions", 0),
            "traces_validated_against_impl": c.get("transitions", 0), "merged": c.get("merged", 0),
            "roots": agg["items"], "depth": DEPTH[tier], "exhaustive": True,
            "edits_with_dependents_discarded": c.get("edits_with_dependents_discarded", 0)}


def vacuity(agg, tier):
    if agg["counts"].get("edits_with_dependents_discarded", 0) < 200:
        return "too few edits that discarded dependents"
