"""C18 An IOSpec lives exactly as long as a reference to its value.

Explicit-state BFS over histories of IO-related operations on the real implementation.

Root configuration (built through public API at the start of every replay):

    M1: space A (scalar cells cc, cells cf(x)), space B(A)          M2: space A

Values (tiny pandas objects created ONCE per replay, addressed by label): df1, df2 (DataFrames),
s1 (Series, thorough), df1n / df2n / s1n (replacement values of update_pandas), 0 (a plain int),
mod<k> (module objects returned by new_module, thorough).

Ops (JSON records):

    new_pandas(site, name, val, loc)   loc: own (the value's own csv file) | clash (the csv file of the
                                       other value - only offered when occupied, i.e. a creation that
                                       must be rejected) | alias (another spelling of an occupied file)
                                       | xl (own sheet of e.xlsx) | xlclash (occupied sheet) | xlnone
                                       names: x, y and the clashing names cc (scalar cells), cf
                                       (cells with a parameter), A (a child space of the model)
    new_module(site, name)             thorough
    assign(site, name, val)            bind to a further name / rebind / rebind a derived ref
    del(site, name)
    update(model, old, new)            update_pandas(old, new); new: None | fresh | other
    bases(add|remove)                  M1.B.add_bases(M1.A) / remove_bases
    delspace(model, space)
    close(model)

After every op (reference model = the harness' list of specs created and not yet orphaned; the
"bound" relation is read from the live model: every reference of every space, derived ones included,
compared by identity):

    exact/manager, exact/iospecs   both views of the model's specs == live specs whose value is bound
    rejected-clean                 a creation that raised changed no reference, no spec, no io entry
    closed-clean                   no iomanager.ios entry of a closed model remains
    no-shared-location             no two specs of a model claim the same (file, sheet)
    sanity                         mxsys._check_sanity()
    write-read                     (once per distinct IO configuration) write, read back: each live
                                   spec's file exists and the value reads back equal
"""
import os
import json
import shutil
import tempfile
import posixpath

import pandas as pd

import modelx as mx
from modelx.core.system import mxsys
from mxmc.session import (reset_world, session_canon, walk_spaces, observe, raw_observe, digest, safe,
                          render)

PROPERTY = "C18"
LEVEL = "model_checking"
ASSUMPTIONS = [
    "root configuration M1{A(cc, cf), B(A)}, M2{A}; values df1, df2 (+ s1, module in thorough); relative "
    "paths only; one csv file per value, one Excel file with one sheet per value",
    "a module value is only bound to further names in a model where it has a live ModuleData",
    "first-use order: df2 is only offered once df1 occurred in the history (exact symmetry of the "
    "alphabet), name y only once x occurred (a restriction of the alphabet, stated here)",
    "creations on an occupied location (clash / alias / xlclash) are only offered while the reference "
    "model says the location is occupied",
    "'bound' is read from the live model through public API (model.refs, space.refs incl. derived refs) by "
    "object identity; the reference model only keeps which specs were created and not yet orphaned",
    "write-read is evaluated once per distinct IO configuration (live specs, pandas/module bindings, space "
    "structure) per worker process, on non-violating states with >= 1 live spec",
    "state merging on the canonical state (session description, spec views, iomanager keys, "
    "_valid_to_refs by label, first-use flags); audited without merging at depth-1",
    "CPython 3.12, PYTHONHASHSEED=0, pandas / openpyxl as installed",
]

SLOTS = [("M1", None, "x"), ("M1", "A", "x"), ("M1", "A", "y"), ("M1", "B", "x"), ("M1", "B", "y"),
         ("M2", "A", "x")]
CLASH_SLOTS = [("M1", "A", "cc"), ("M1", "A", "cf"), ("M1", None, "A")]
SPACES = [("M1", "A"), ("M1", "B"), ("M2", "A")]

CSV = {"df1": "d1.csv", "df2": "d2.csv", "s1": "sub/s1.csv"}
OTHER = {"df1": "df2", "df2": "df1", "s1": "df1"}
SHEET = {"df1": "sh1", "df2": "sh2", "s1": "sh3"}
XL = "e.xlsx"
MODPATH = "mods/mod.py"

# a tier is a list of phases; every phase is an exhaustive BFS of its own alphabet to its own depth
BOUNDS = {
    "quick": [
        {"id": "csv-d3", "depth": 3, "prefix": 2, "vals": ["df1", "df2"], "locs": ["own", "clash"],
         "module": False, "update_new": [None, "fresh"], "model_level": True},
        # from a seeded start state (a spec'd value and a second, plainly bound value): updates onto an already
        # referenced value, two more ops
        {"id": "seeded-d4", "depth": 4, "prefix": 3, "vals": ["df1", "df2"], "locs": ["own"],
         "module": False, "update_new": [None, "fresh", "other"], "model_level": False,
         "start": [{"op": "new_pandas", "m": "M1", "space": "A", "name": "x", "val": "df1", "loc": "own"},
                   {"op": "assign", "m": "M1", "space": "A", "name": "y", "val": "df2"}]},
        # excel workbooks: named sheets, no sheet, clashing sheets
        {"id": "xl-d2", "depth": 2, "prefix": 1, "vals": ["df1", "df2"], "locs": ["xl", "xlclash", "xlnone"],
         "module": False, "update_new": [None], "model_level": False},
    ],
    "thorough": [
        {"id": "csv-d4", "depth": 4, "prefix": 2, "vals": ["df1", "df2"], "locs": ["own", "clash"],
         "module": False, "update_new": [None, "fresh"], "model_level": True, "names": ["x"]},
        {"id": "full-d3", "depth": 3, "prefix": 2, "vals": ["df1", "df2", "s1"],
         "locs": ["own", "clash", "alias", "xl", "xlclash", "xlnone"],
         "module": True, "update_new": [None, "fresh", "other"], "model_level": True},
    ],
}
HARD = {"hard": True}


def jd(o):
    return json.dumps(o, sort_keys=True, default=repr)


# --------------------------------------------------------------------------------------
# scratch

class Scratch:
    def __init__(self):
        self.root = None
        self._old = None
        self.n = 0

    def __enter__(self):
        self._old = tempfile.tempdir
        self.root = tempfile.mkdtemp(prefix="mxmc-c18-")
        tempfile.tempdir = self.root
        self.modsrc = os.path.join(self.root, "modsrc.py")
        with open(self.modsrc, "w") as f:
            f.write("def triple(x):\n    return 3 * x\n")
        return self

    def __exit__(self, *exc):
        tempfile.tempdir = self._old
        if self.root:
            shutil.rmtree(self.root, ignore_errors=True)
        self.root = None
        return False

    def outdir(self):
        self.n += 1
        return os.path.join(self.root, "out%d" % self.n)

    def drop(self, path):
        shutil.rmtree(path, ignore_errors=True)


# --------------------------------------------------------------------------------------
# world

def make_values():
    return {
        "df1": pd.DataFrame({"a": [1, 2]}),
        "df2": pd.DataFrame({"b": [3.5, 4.5]}),
        "s1": pd.Series([7, 8], name="s"),
        "df1n": pd.DataFrame({"a": [10, 20, 30]}),
        "df2n": pd.DataFrame({"b": [0.5]}),
        "s1n": pd.Series([70, 80, 90], name="s"),
        "zero": 0,
    }


class World:
    def __init__(self, scratch):
        self.scratch = scratch
        self.vals = make_values()
        self.idmap = {id(v): k for k, v in self.vals.items() if k != "zero"}
        self.models = {}
        self.closed = set()
        self.live = {"M1": [], "M2": []}     # reference model: specs created and not yet orphaned
        self.nmods = 0
        self.used = set()                    # first-use flags: "df1", "x"
        self.last = {}

    def label(self, v):
        return self.idmap.get(id(v))

    def site(self, mname, space):
        m = self.models[mname]
        return m if space is None else m.spaces[space]

    def has_site(self, mname, space):
        if mname in self.closed:
            return False
        if space is None:
            return True
        return safe(lambda: space in self.models[mname].spaces) is True

    def open_models(self):
        return [n for n in ("M1", "M2") if n not in self.closed]


def build_root(scratch):
    reset_world()
    w = World(scratch)
    m1 = mx.new_model("M1")
    a = m1.new_space("A")
    a.new_cells("cc", formula="lambda: 1")
    a.new_cells("cf", formula="lambda x: x")
    m1.new_space("B", bases=a)
    m2 = mx.new_model("M2")
    m2.new_space("A")
    w.models = {"M1": m1, "M2": m2}
    return w


def location(val, loc):
    """(path, file_type, sheet) of a creation op."""
    if loc == "own":
        return CSV[val], "csv", None
    if loc == "clash":
        return CSV[OTHER[val]], "csv", None
    if loc == "alias":
        p = CSV[OTHER[val]]
        return "al/../" + p, "csv", None
    if loc == "xl":
        return XL, "excel", SHEET[val]
    if loc == "xlclash":
        return XL, "excel", SHEET[OTHER[val]]
    if loc == "xlnone":
        return XL, "excel", None
    raise ValueError(loc)


def norm(path):
    return posixpath.normpath(str(path).replace(os.sep, "/"))


def occupied(w, mname, path, sheet, by_file=False):
    for rec in w.live[mname]:
        if norm(rec["path"]) == norm(path) and (by_file or rec["sheet"] == sheet):
            return True
    return False


# --------------------------------------------------------------------------------------
# reading the implementation

SYSREFS = ("__builtins__", "_self", "_space", "_model")


def bindings(w, mname):
    """[(site path or '', name, label)] for every reference of the model whose value is a harness value."""
    m = w.models[mname]
    out = []
    for n, v in m.refs.items():
        if n in SYSREFS:
            continue
        lab = w.label(v)
        if lab:
            out.append(["", n, lab])
    for s in walk_spaces(m, dynamic=True):
        sp = s.fullname.split(".", 1)[1]
        for n, v in s.refs.items():
            if n in SYSREFS:
                continue
            lab = w.label(v)
            if lab:
                out.append([sp, n, lab])
    return sorted(out)


def all_refs(w):
    """Every reference of every open model rendered (for rejected-clean)."""
    out = {}
    for mname in w.open_models():
        m = w.models[mname]
        d = {}
        for n, v in m.refs.items():
            if n not in SYSREFS:
                d["." + n] = w.label(v) or render(v)
        for s in walk_spaces(m, dynamic=True):
            sp = s.fullname.split(".", 1)[1]
            for n, v in s.refs.items():
                if n not in SYSREFS:
                    d[sp + "." + n] = w.label(v) or render(v)
            for n, c in s.cells.items():
                d[sp + "." + n + "()"] = sorted(jd([render(k), w.label(x) or render(x)])
                                                for k, x in c._impl.data.items())
        out[mname] = d
    return out


def spec_key(w, s, raw=False):
    """(file, type, sheet, value label); the file is compared as a location, not as a spelling."""
    io = s.io
    ft = getattr(io, "file_type", None) or type(s).__name__
    p = s.path.as_posix()
    return [p if raw else norm(p), ft, getattr(s, "sheet", None), w.label(s.value) or "?"]


def rec_key(rec):
    return [norm(rec["path"]), rec["type"], rec["sheet"], rec["val"]]


def manager_view(w, mname):
    m = w.models[mname]
    return [s for io in mxsys.iomanager.get_ios(m).values() for s in io.specs.values()]


def ios_keys(w):
    out = []
    for (group, path), io in mxsys.iomanager.ios.items():
        gname = None
        if group is not None:
            gname = next((n for n, m in w.models.items() if m is group), "?")
        out.append([gname, path.as_posix(), type(io).__name__, getattr(io, "file_type", None), len(io.specs)])
    return sorted(out, key=jd)


def valid_to_refs(w, mname):
    m = w.models[mname]
    out = {}
    for vid, refs in m._impl.refmgr._valid_to_refs.items():
        lab = w.idmap.get(vid) or ("other" if refs else "other-empty")
        names = sorted(safe(lambda r=r: r.get_repr(fullname=True, add_params=False)) for r in refs)
        out.setdefault(lab, []).extend(names)
    return {k: sorted(v) for k, v in out.items()}


# --------------------------------------------------------------------------------------
# alphabet

def applicable(w, op, b):
    """Hard applicability (the objects addressed exist) and, unless b is HARD, the alphabet's
    restrictions (first-use order, occupied-only clashes, tier vocabulary)."""
    hard = b is HARD
    k = op["op"]
    mname = op.get("m")
    if mname in w.closed:
        return False
    if k in ("new_pandas", "new_module", "assign", "del"):
        if not w.has_site(mname, op["space"]):
            return False
        if k == "assign" and op["val"] == "mod" and w.nmods == 0:
            return False
        if k == "assign" and op["val"] == "mod":
            # a module object without a ModuleData in this model cannot be saved at all (it is pickled
            # by name); binding one is outside the property (also when replaying stored cases)
            lab = "mod%d" % w.nmods
            if not any(rec["val"] == lab for rec in w.live[mname]):
                return False
        if hard:
            return True
        if op.get("val") == "df2" and "df1" not in w.used:
            return False
        if op["name"] == "y" and "x" not in w.used:
            return False
        if k == "new_pandas":
            path, ft, sheet = location(op["val"], op["loc"])
            if op["loc"] in ("clash", "alias"):
                return occupied(w, mname, path, None, by_file=True)
            if op["loc"] == "xlclash":
                return occupied(w, mname, path, sheet)
            if op["name"] == "A":
                return w.has_site("M1", "A")
            return True
        if k == "del":
            site = w.site(mname, op["space"])
            return safe(lambda: op["name"] in site.refs) is True
        return True
    if k == "update":
        if hard:
            return True
        if op["old"] == "df2" and "df1" not in w.used:
            return False
        bound = {lab for _, _, lab in bindings(w, mname)}
        return op["old"] in bound
    if k == "bases":
        if not (w.has_site("M1", "A") and w.has_site("M1", "B")):
            return False
        if hard:
            return True
        has = safe(lambda: any(x.name == "A" for x in w.models["M1"].B._direct_bases))
        return (has is False) if op["how"] == "add" else (has is True)
    if k == "delspace":
        return w.has_site(mname, op["space"])
    if k == "close":
        return True
    return False


def alphabet(w, b):
    ops = []
    slots = slots_of(b)
    for (m, sp, n) in slots:
        for val in b["vals"]:
            for loc in b["locs"]:
                ops.append({"op": "new_pandas", "m": m, "space": sp, "name": n, "val": val, "loc": loc})
    for (m, sp, n) in CLASH_SLOTS:          # clashing names: own location only
        for val in ("df1", "df2"):
            ops.append({"op": "new_pandas", "m": m, "space": sp, "name": n, "val": val, "loc": "own"})
    if b["module"]:
        for (m, sp, n) in slots:
            if n == "x":
                ops.append({"op": "new_module", "m": m, "space": sp, "name": n})
        ops.append({"op": "new_module", "m": "M1", "space": "A", "name": "cf"})
    avals = list(b["vals"]) + ["zero"] + (["mod"] if b["module"] else [])
    for (m, sp, n) in slots:
        for val in avals:
            ops.append({"op": "assign", "m": m, "space": sp, "name": n, "val": val})
    for (m, sp, n) in slots:
        ops.append({"op": "del", "m": m, "space": sp, "name": n})
    for m in ("M1", "M2"):
        for old in b["vals"]:
            for new in b["update_new"]:
                ops.append({"op": "update", "m": m, "old": old, "new": new})
    ops.append({"op": "bases", "m": "M1", "how": "remove"})
    ops.append({"op": "bases", "m": "M1", "how": "add"})
    for (m, sp) in SPACES:
        ops.append({"op": "delspace", "m": m, "space": sp})
    ops.append({"op": "close", "m": "M1"})
    ops.append({"op": "close", "m": "M2"})
    return [op for op in ops if applicable(w, op, b)]


def slots_of(b):
    return [s for s in SLOTS if (b["model_level"] or s[1] is not None) and s[2] in b.get("names", ["x", "y"])]


def alphabet_size(b):
    slots = slots_of(b)
    n = len(slots) * len(b["vals"]) * len(b["locs"]) + len(CLASH_SLOTS) * 2
    n += (len([s for s in slots if s[2] == "x"]) + 1) if b["module"] else 0
    n += len(slots) * (len(b["vals"]) + 1 + (1 if b["module"] else 0))
    n += len(slots) + 2 * len(b["vals"]) * len(b["update_new"]) + 2 + len(SPACES) + 2
    return n


# --------------------------------------------------------------------------------------
# applying an op + oracle

def new_value_of_update(op):
    if op["new"] is None:
        return None, op["old"]
    if op["new"] == "fresh":
        return op["old"] + "n", op["old"] + "n"
    return OTHER[op["old"]], OTHER[op["old"]]


def apply_impl(w, op):
    k = op["op"]
    if k == "new_pandas":
        site = w.site(op["m"], op["space"])
        path, ft, sheet = location(op["val"], op["loc"])
        data = w.vals[op["val"]]
        return raw_observe(lambda: site.new_pandas(op["name"], path, data, file_type=ft, sheet=sheet))
    if k == "new_module":
        site = w.site(op["m"], op["space"])
        return raw_observe(lambda: site.new_module(op["name"], MODPATH, w.scratch.modsrc))
    if k == "assign":
        site = w.site(op["m"], op["space"])
        v = w.vals["mod%d" % w.nmods] if op["val"] == "mod" else w.vals[op["val"]]
        return raw_observe(lambda: setattr(site, op["name"], v))
    if k == "del":
        site = w.site(op["m"], op["space"])
        return raw_observe(lambda: delattr(site, op["name"]))
    if k == "update":
        m = w.models[op["m"]]
        newlab, _ = new_value_of_update(op)
        new = None if newlab is None else w.vals[newlab]
        return raw_observe(lambda: m.update_pandas(w.vals[op["old"]], new))
    if k == "bases":
        m1 = w.models["M1"]
        if op["how"] == "add":
            return raw_observe(lambda: m1.B.add_bases(m1.A))
        return raw_observe(lambda: m1.B.remove_bases(m1.A))
    if k == "delspace":
        m = w.models[op["m"]]
        return raw_observe(lambda: delattr(m, op["space"]))
    if k == "close":
        m = w.models[op["m"]]
        return raw_observe(m.close)
    raise ValueError(op)


def views(w):
    """Both spec views per open model + iomanager keys."""
    out = {"mgr": {}, "pub": {}, "ios": safe(lambda: ios_keys(w))}
    for mname in w.open_models():
        out["mgr"][mname] = safe(lambda: sorted((spec_key(w, s) for s in manager_view(w, mname)), key=jd))
        out["pub"][mname] = safe(lambda: sorted((spec_key(w, s) for s in w.models[mname].iospecs), key=jd))
    return out


def step(w, op, check):
    viols = []

    def bad(clause, observed, expected):
        viols.append((clause, observed, expected))

    k = op["op"]
    creation = k in ("new_pandas", "new_module")
    if check and creation:
        pre_refs = safe(lambda: all_refs(w))
        pre_views = views(w)
    kind, res = apply_impl(w, op)
    ok = kind == "ok"
    obs = ("ok", None) if ok else ("exc", type(res).__name__)
    w.last = {}
    for key in ("val", "old"):
        if op.get(key) == "df1":
            w.used.add("df1")
    if op.get("name") == "x":
        w.used.add("x")

    # ---- reference model -------------------------------------------------------------------
    if k == "new_pandas" and ok:
        path, ft, sheet = location(op["val"], op["loc"])
        w.live[op["m"]].append({"path": norm_keep(path), "type": ft, "sheet": sheet, "val": op["val"]})
        w.last["created"] = 1
    elif k == "new_module" and ok:
        w.nmods += 1
        lab = "mod%d" % w.nmods
        w.vals[lab] = res
        w.idmap[id(res)] = lab
        w.live[op["m"]].append({"path": MODPATH, "type": "ModuleData", "sheet": None, "val": lab})
        w.last["created"] = 1
    elif k == "update" and ok:
        _, lab = new_value_of_update(op)
        for rec in w.live[op["m"]]:
            if rec["val"] == op["old"]:
                rec["val"] = lab
        w.last["updated"] = 1
    elif k == "close" and ok:
        w.closed.add(op["m"])
        w.live[op["m"]] = []
    if creation and not ok:
        w.last["rejected_creation"] = 1
    if not ok:
        w.last["raised"] = 1

    # bound relation from the live model; specs whose value lost its last reference are orphaned
    bound = {}
    for mname in w.open_models():
        b = safe(lambda: {lab for _, _, lab in bindings(w, mname)})
        bound[mname] = b
        if isinstance(b, str):
            continue
        keep = [rec for rec in w.live[mname] if rec["val"] in b]
        if len(keep) != len(w.live[mname]):
            w.last["orphaned"] = 1
        w.live[mname] = keep

    if not check:
        return viols, obs

    # ---- exact ---------------------------------------------------------------------------
    vw = views(w)
    for mname in w.open_models():
        if isinstance(bound[mname], str):
            bad("sanity", {"model": mname, "references unreadable": bound[mname]}, "readable")
            continue
        exp = sorted((rec_key(rec) for rec in w.live[mname]), key=jd)
        if vw["mgr"][mname] != exp:
            bad("exact/manager", {"model": mname, "manager": vw["mgr"][mname],
                                  "bound": sorted(bound[mname])}, exp)
        if vw["pub"][mname] != exp:
            bad("exact/iospecs", {"model": mname, "iospecs": vw["pub"][mname],
                                  "bound": sorted(bound[mname])}, exp)

    # ---- rejected-clean --------------------------------------------------------------------
    if creation and not ok:
        post_refs = safe(lambda: all_refs(w))
        diff = {}
        if post_refs != pre_refs:
            diff["references"] = {"before": pre_refs, "after": post_refs}
        for key in ("mgr", "pub", "ios"):
            if vw[key] != pre_views[key]:
                diff[key] = {"before": pre_views[key], "after": vw[key]}
        if diff:
            bad("rejected-clean", {"raised": obs[1], "changed": diff}, "nothing changed")

    # ---- closed-clean ----------------------------------------------------------------------
    for mname in sorted(w.closed):
        m = w.models[mname]
        left = [[p.as_posix(), len(io.specs)] for (g, p), io in mxsys.iomanager.ios.items() if g is m]
        left2 = safe(lambda: sorted(p.as_posix() for p in mxsys.iomanager.get_ios(m)))
        if left or left2:
            bad("closed-clean", {"model": mname, "ios left": left or left2}, [])

    # ---- no-shared-location ------------------------------------------------------------------
    for mname in w.open_models():
        specs = safe(lambda: manager_view(w, mname))
        if isinstance(specs, str):
            continue
        locs = {}
        for s in specs:
            locs.setdefault((norm(s.path.as_posix()), getattr(s, "sheet", None)), []).append(spec_key(w, s, True))
        byfile = {}
        for s in specs:
            byfile.setdefault(norm(s.path.as_posix()), []).append(s)
        shared = [v for v in locs.values() if len(v) > 1]
        # several specs in one file are only legitimate as distinct named sheets of one Excel file
        for p, ss in byfile.items():
            if len(ss) > 1:
                sheets = [getattr(s, "sheet", None) for s in ss]
                ftypes = {getattr(s.io, "file_type", type(s).__name__) for s in ss}
                if ftypes != {"excel"} or None in sheets or len({id(s.io) for s in ss}) > 1:
                    ks = [spec_key(w, s, True) for s in ss]
                    if ks not in shared:
                        shared.append(ks)
        if shared:
            bad("no-shared-location", {"model": mname, "shared": shared}, "one spec per (file, sheet)")

    # ---- sanity ------------------------------------------------------------------------------
    so = observe(mxsys._check_sanity)
    if so[0] != "ok":
        bad("sanity", {"_check_sanity": so[1]}, "passes")
    return viols, obs


def norm_keep(path):
    return posixpath.join(*str(path).split("/"))


def io_config(w, mname):
    """What a write of model ``mname`` depends on, as far as live specs are concerned."""
    m = w.models[mname]
    return digest({
        "model": mname,
        "live": sorted((rec_key(r) for r in w.live[mname]), key=jd),
        "bind": safe(lambda: bindings(w, mname)),
        "spaces": safe(lambda: sorted([s.fullname, [x.name for x in s._direct_bases]]
                                      for s in walk_spaces(m, dynamic=False))),
    })


def write_read(w, only=None):
    """Write every open model holding live specs, read it back; check files and values of live specs."""
    viols = []
    for mname in w.open_models():
        if not w.live[mname] or (only is not None and mname not in only):
            continue
        m = w.models[mname]
        out = w.scratch.outdir()
        try:
            kind, res = raw_observe(lambda: m.write(out, backup=False))
            if kind != "ok":
                viols.append(("write-read", {"model": mname, "write raised": type(res).__name__ + ": " + str(res)[:200]},
                              "written"))
                continue
            missing = [rec["path"] for rec in w.live[mname] if not os.path.isfile(os.path.join(out, rec["path"]))]
            if missing:
                viols.append(("write-read", {"model": mname, "files missing": missing,
                                             "written": sorted(os.listdir(out))}, "one file per live spec"))
                continue
            kind, rb = raw_observe(lambda: mx.read_model(out, name="RB" + mname))
            if kind != "ok":
                viols.append(("write-read", {"model": mname, "read raised": type(rb).__name__ + ": " + str(rb)[:200]},
                              "read back"))
                continue
            livevals = {rec["val"] for rec in w.live[mname]}
            for sp, n, lab in bindings(w, mname):
                if lab not in livevals:
                    continue
                orig = w.vals[lab]

                def get():
                    o = rb
                    for part in (sp.split(".") if sp else []):
                        o = o.spaces[part]
                    return o.refs[n]
                kind, got = raw_observe(get)
                if kind != "ok":
                    same = False
                    shown = "missing: " + type(got).__name__
                elif isinstance(orig, (pd.DataFrame, pd.Series)):
                    same = type(got) is type(orig) and bool(orig.equals(got))
                    shown = render(got) if same else safe(lambda: got.to_dict())
                else:
                    same = safe(lambda: got.triple(2)) == 6
                    shown = render(got)
                if not same:
                    viols.append(("write-read", {"model": mname, "ref": (sp + "." if sp else "") + n, "value": lab,
                                                 "read back": shown}, "equal to " + lab))
            safe(rb.close)
        finally:
            w.scratch.drop(out)
    return viols


def canon(w):
    extra = {
        "ios": safe(lambda: ios_keys(w)),
        "closed": sorted(w.closed),
        "nmods": w.nmods,
        "used": sorted(w.used),
        "live": {m: sorted((rec_key(r) for r in w.live[m]), key=jd) for m in w.live},
    }
    vw = views(w)
    extra["mgr"] = vw["mgr"]
    extra["pub"] = vw["pub"]
    extra["v2r"] = {m: safe(lambda: valid_to_refs(w, m)) for m in w.open_models()}
    extra["bind"] = {m: safe(lambda: bindings(w, m)) for m in w.open_models()}
    extra["own"] = {}
    for mname in w.open_models():
        def own():
            out = []
            for s in walk_spaces(w.models[mname], dynamic=False):
                for n, v in s._own_refs.items():
                    out.append([s.fullname, n, w.label(v) or render(v)])
            return sorted(out, key=jd)
        extra["own"][mname] = safe(own)
    return jd(session_canon(extra=extra, with_graph=True))


def replay(history, scratch, b, check="all"):
    w = build_root(scratch)
    viols, obss, skipped = [], [], 0
    for n, op in enumerate(history):
        if not applicable(w, op, b):
            skipped += 1
            obss.append(None)
            continue
        chk = check == "all" or (check == "last" and n == len(history) - 1)
        vs, obs = step(w, op, chk)
        obss.append(obs)
        for (c, o, e) in vs:
            viols.append((n, c, o, e))
        if vs:
            break
    return w, viols, obss, skipped


def outcome(op, obs, w):
    return digest([op["op"], op.get("loc"), op.get("name") in ("cc", "cf", "A"), op.get("how"), op.get("new"),
                   obs, {m: len(w.live[m]) for m in w.live}, sorted(w.closed), sorted(w.last)])


# --------------------------------------------------------------------------------------
# exploration

_WR_SEEN = set()


def explore(prefix, depth, scratch, b, merge=True, counts=None, outcomes=None, samples=None, do_wr=True):
    counts = counts if counts is not None else {}
    outcomes = outcomes if outcomes is not None else set()
    viols = []
    vkeys = set()
    wr_seen = _WR_SEEN          # per worker process: the verdict depends on the IO configuration only

    def cnt(k, n=1):
        counts[k] = counts.get(k, 0) + n

    def report(hist, vs):
        for (n, c, o, e) in vs:
            viols.append({"clause": c, "case": {"history": hist[:n + 1]}, "observed": o, "expected": e})

    def maybe_write_read(w, hist, kb, op):
        if not do_wr:
            return False
        todo = []
        for mname in w.open_models():
            if w.live[mname]:
                cfg = io_config(w, mname)
                if cfg not in wr_seen:
                    wr_seen.add(cfg)
                    todo.append(mname)
        if not todo:
            return False
        cnt("write_read_runs", len(todo))
        vs = write_read(w, only=todo)
        if vs:
            for (c, o, e) in vs:
                viols.append({"clause": c, "case": {"history": list(hist), "write_read": True},
                              "observed": o, "expected": e})
                vkeys.add((kb, jd(op), c))
            return True
        return False

    w, vs, obss, skipped = replay(prefix, scratch, b, check="all")
    cnt("transitions", len(prefix) - skipped)
    if skipped:
        return viols, set(), vkeys
    for op, obs in zip(prefix, obss):
        tally(op, obs, counts, None)
    if vs:
        report(prefix, vs)
        for (n, c, o, e) in vs:
            vkeys.add(("<prefix>", jd(prefix[:n + 1]), c))
        return viols, set(), vkeys
    k0 = canon(w)
    seen = {k0}
    ops0 = alphabet(w, b)
    if maybe_write_read(w, prefix, "<prefix>", prefix[-1] if prefix else None):
        ops0 = []
    frontier = [(list(prefix), ops0, k0)]
    for d in range(len(prefix) + 1, depth + 1):
        nxt = []
        for hist, ops, kb in frontier:
            for op in ops:
                h2 = hist + [op]
                w, vs, obss, skipped = replay(h2, scratch, b, check="last")
                assert not skipped, "harness: generated op not applicable on replay: %s" % jd(h2)
                cnt("transitions")
                cnt("ops_executed", len(h2))
                obs = obss[-1]
                tally(op, obs, counts, w.last)
                outcomes.add(outcome(op, obs, w))
                if vs:
                    cnt("violating_transitions")
                    report(h2, vs)
                    for (n, c, o, e) in vs:
                        vkeys.add((digest(kb), jd(op), c))
                    continue
                k = canon(w)
                if merge and k in seen:
                    cnt("merged")
                    continue
                seen.add(k)
                ops2 = alphabet(w, b) if d < depth else []
                if maybe_write_read(w, h2, digest(kb), op):
                    continue
                if d == depth:
                    if samples is not None and len(samples) < 2:
                        samples.append({"history": h2})
                    continue
                nxt.append((h2, ops2, k))
        frontier = nxt
    cnt("states", len(seen))
    return viols, {digest(s) for s in seen}, vkeys


def tally(op, obs, counts, last):
    def cnt(k):
        counts[k] = counts.get(k, 0) + 1
    if obs is None:
        return
    for k in (last or {}):
        cnt(k)


def work_items(tier, seed):
    items = []
    with Scratch() as sc:
        try:
            for ph, b in enumerate(BOUNDS[tier]):
                level = [list(b.get("start", []))]
                for d in range(len(b.get("start", [])), b["prefix"]):
                    nxt = []
                    for h in level:
                        w, vs, obss, _ = replay(h, sc, b, check="all")
                        ops = [] if vs else alphabet(w, b)
                        if not ops:
                            if h:
                                items.append({"phase": ph, "prefix": h})
                            continue
                        nxt.extend(h + [op] for op in ops)
                    level = nxt
                items.extend({"phase": ph, "prefix": h} for h in level)
                if tier == "thorough" or os.environ.get("MXMC_AUDIT"):
                    w0, _, _, _ = replay([], sc, b, check="none")
                    for op in alphabet(w0, b):
                        items.append({"phase": ph, "prefix": [op], "audit": True})
        finally:
            reset_world()
    # heavy items (long remaining depth) first, so that the pool drains evenly
    items.sort(key=lambda it: -(BOUNDS[tier][it["phase"]]["depth"] - len(it["prefix"])
                                - (0.5 if it.get("audit") else 0)))
    return items


def run_audit(item, tier):
    """Canon audit: explore below a 1-op prefix to depth-1 with and without state merging; the sets of
    canonical states and of (state, op, clause) violation keys must coincide."""
    b = BOUNDS[tier][item["phase"]]
    counts = {}
    extra = {}
    with Scratch() as sc:
        try:
            c2, c3 = {}, {}
            v_m, s_m, k_m = explore(item["prefix"], b["depth"] - 1, sc, b, True, c2, set(), None, do_wr=False)
            v_u, s_u, k_u = explore(item["prefix"], b["depth"] - 1, sc, b, False, c3, set(), None, do_wr=False)
        finally:
            reset_world()
    counts["audit_transitions_unmerged"] = c3.get("transitions", 0)
    counts["audit_transitions_merged"] = c2.get("transitions", 0)
    counts["audit_states"] = len(s_m)
    mism = int(s_m != s_u) + int(k_m != k_u)
    counts["audit_mismatch"] = mism
    counts["audit_items"] = 1
    if mism:
        extra["canon_audit_mismatch_items"] = [item]
    res = {"counts": counts, "outcomes": [], "samples": [], "violations": []}
    if extra:
        res["extra"] = extra
    return res


def run_item(item, tier):
    if item.get("audit"):
        return run_audit(item, tier)
    b = BOUNDS[tier][item["phase"]]
    counts = {}
    outcomes = set()
    samples = []
    with Scratch() as sc:
        try:
            viols, states, vkeys = explore(item["prefix"], b["depth"], sc, b, True, counts, outcomes, samples)
        finally:
            reset_world()
    counts["violations_raw"] = len(viols)
    if viols:
        viols = local_shrink(viols)
    for k in ("states", "transitions"):
        counts["%s[%s]" % (k, b["id"])] = counts.get(k, 0)
    return {"counts": counts, "outcomes": sorted(outcomes), "samples": samples, "violations": viols}


def check_case(case):
    hist = case["history"]
    out = []
    with Scratch() as sc:
        try:
            w, vs, obss, skipped = replay(hist, sc, HARD, check="all")
            for (n, c, o, e) in vs:
                out.append({"clause": c, "case": {"history": hist[:n + 1]}, "observed": o, "expected": e})
            if not vs and case.get("write_read"):
                for (c, o, e) in write_read(w):
                    out.append({"clause": c, "case": {"history": list(hist), "write_read": True},
                                "observed": o, "expected": e})
        finally:
            reset_world()
    return out


VAL_COST = {"df1": 0, "zero": 0, "df2": 1, "s1": 2, "mod": 3}
NAME_COST = {"x": 0, "y": 1}
SITE_COST = {("M1", "A"): 0, ("M1", "B"): 2, ("M1", None): 4, ("M2", "A"): 6}
LOC_COST = {None: 0, "own": 0, "clash": 1, "xl": 2, "xlclash": 3, "xlnone": 4, "alias": 5}
NEW_COST = {None: 0, "fresh": 1, "other": 2}


def op_cost(op):
    c = VAL_COST.get(op.get("val"), 0) + VAL_COST.get(op.get("old"), 0) + NAME_COST.get(op.get("name"), 0)
    if "space" in op:
        c += SITE_COST.get((op["m"], op["space"]), 0)
    elif op.get("m") == "M2":
        c += 6
    return c + LOC_COST.get(op.get("loc"), 0) + NEW_COST.get(op.get("new"), 0)


def hist_cost(h):
    """Well-founded order used by the canonicalising shrink: shorter first, then cheaper vocabulary
    (compared op by op)."""
    return (len(h), sum(op_cost(op) for op in h), tuple(op_cost(op) for op in h))


def _subst(h, fn):
    out = []
    for op in h:
        op2 = fn(dict(op))
        if op2 is None:
            return None
        out.append(op2)
    return out


def _swap(field_names, a, b):
    def fn(op):
        for f in field_names:
            if op.get(f) == a:
                op[f] = b
            elif op.get(f) == b:
                op[f] = a
        return op
    return fn


def _replace(field_names, a, b):
    def fn(op):
        for f in field_names:
            if op.get(f) == a:
                op[f] = b
        return op
    return fn


def _site(src, dst):
    def fn(op):
        if "space" in op:
            if (op["m"], op["space"]) == src:
                if op["op"] == "delspace" and dst[1] is None:
                    return None
                if op.get("name") in ("cc", "cf", "A"):
                    return None
                op["m"], op["space"] = dst
        elif op.get("m") == src[0] and src[0] != dst[0]:
            op["m"] = dst[0]
        return op
    return fn


def _single_op_variants(op):
    """Cheaper spellings of one op (site, name, value, location)."""
    out = []
    if op["op"] in ("new_pandas", "new_module", "assign", "del") and op.get("name") in ("x", "y"):
        for (m, sp, n) in SLOTS:
            if (m, sp, n) != (op["m"], op["space"], op["name"]):
                out.append(dict(op, m=m, space=sp, name=n))
    if op.get("val") in ("df2", "s1"):
        out.append(dict(op, val="df1"))
        if op["val"] == "s1":
            out.append(dict(op, val="df2"))
    if op.get("old") in ("df2", "s1"):
        out.append(dict(op, old="df1"))
    if op.get("loc") not in (None, "own"):
        for loc in ("own", "clash", "xl"):
            if loc != op["loc"]:
                out.append(dict(op, loc=loc))
    if op.get("new"):
        out.append(dict(op, new=None))
        if op["new"] == "other":
            out.append(dict(op, new="fresh"))
    return out


def shrink_candidates(case):
    """Smaller cases: one op removed, then renamings towards the canonical vocabulary (df1 before
    df2, x before y, M1.A before M1.B before M1 before M2.A, own file before other locations), first
    globally, then op by op.  Only candidates that are strictly smaller in ``hist_cost`` are proposed;
    the runner keeps a candidate only if the same clause still fails."""
    h = case["history"]
    flag = {"write_read": True} if case.get("write_read") else {}
    for k in range(len(h) - 1, -1, -1):
        yield dict(flag, history=h[:k] + h[k + 1:])
    base = hist_cost(h)
    fns = [_swap(("val", "old"), "df1", "df2"), _replace(("val", "old"), "df2", "df1"),
           _replace(("val", "old"), "s1", "df1"), _swap(("name",), "x", "y"), _replace(("name",), "y", "x"),
           _site(("M2", "A"), ("M1", "A")), _site(("M1", "B"), ("M1", "A")), _site(("M1", None), ("M1", "A")),
           _site(("M2", "A"), ("M1", "B")), _replace(("loc",), "xl", "own"), _replace(("loc",), "xlnone", "own"),
           _replace(("loc",), "xlnone", "xl")]
    seen = set()
    cands = []
    for fn in fns:
        h2 = _subst(h, fn)
        if h2 is not None:
            cands.append(h2)
    for k, op in enumerate(h):
        for op2 in _single_op_variants(op):
            cands.append(h[:k] + [op2] + h[k + 1:])
    cands = [h2 for h2 in cands if h2 != h and hist_cost(h2) < base]
    cands.sort(key=hist_cost)
    for h2 in cands:
        key = jd(h2)
        if key in seen:
            continue
        seen.add(key)
        yield dict(flag, history=h2)


_SHRINK_MEMO = {}


def local_shrink(viols, budget_per=400):
    """Shrink + canonicalise every violation inside the worker (memoised per process), dedupe."""
    import itertools
    memo = _SHRINK_MEMO
    if len(memo) > 200000:
        memo.clear()

    def failing(case, clause):
        key = jd(case)
        if key not in memo:
            try:
                memo[key] = [v for v in check_case(case)]
            except Exception:
                memo[key] = []
        return [v for v in memo[key] if v["clause"] == clause]

    out = {}
    final = {}
    for v in viols:
        clause = v["clause"]
        cur = v
        start = jd(v["case"])
        if (clause, start) in final:
            cur = final[(clause, start)]
        else:
            flag = {"write_read": True} if v["case"].get("write_read") else {}
            h = v["case"]["history"]
            # fast path: short subsequences that keep the last op (few distinct ones => memo hits)
            found = False
            for k in range(1, len(h)):
                for idx in itertools.combinations(range(len(h) - 1), k - 1):
                    cand = dict(flag, history=[h[i] for i in idx] + [h[-1]])
                    hit = failing(cand, clause)
                    if hit:
                        cur = dict(hit[0])
                        cur["case"] = cand
                        found = True
                        break
                if found:
                    break
            budget = budget_per
            changed = True
            while changed and budget > 0:
                changed = False
                for cand in shrink_candidates(cur["case"]):
                    budget -= 1
                    hit = failing(cand, clause)
                    if hit:
                        cur = dict(hit[0])
                        cur["case"] = cand
                        changed = True
                        break
                    if budget <= 0:
                        break
            final[(clause, start)] = cur
        out.setdefault((clause, jd(cur["case"])), cur)
    return list(out.values())


# --------------------------------------------------------------------------------------
# stand-alone script

def script(case):
    hist = case["history"]
    L = [
        "import os, tempfile",
        "import pandas as pd",
        "import modelx as mx",
        "from modelx.core.system import mxsys",
        "",
        "df1 = pd.DataFrame({'a': [1, 2]}); df2 = pd.DataFrame({'b': [3.5, 4.5]}); s1 = pd.Series([7, 8], name='s')",
        "df1n = pd.DataFrame({'a': [10, 20, 30]}); df2n = pd.DataFrame({'b': [0.5]}); "
        "s1n = pd.Series([70, 80, 90], name='s')",
        "tmp = tempfile.TemporaryDirectory()",
        "modsrc = os.path.join(tmp.name, 'modsrc.py'); open(modsrc, 'w').write('def triple(x):\\n    return 3 * x\\n')",
        "M1 = mx.new_model('M1'); A = M1.new_space('A'); A.new_cells('cc', formula='lambda: 1'); "
        "A.new_cells('cf', formula='lambda x: x')",
        "B = M1.new_space('B', bases=A)",
        "M2 = mx.new_model('M2'); M2.new_space('A')",
        "",
        "def show(tag):",
        "    for m in (M1, M2):",
        "        if m.name in mx.get_models() and mx.get_models()[m.name] is m:",
        "            print(tag, m.name, 'iospecs:', m.iospecs)",
        "        print(tag, m.name, 'manager:', [s for io in mxsys.iomanager.get_ios(m).values() "
        "for s in io.specs.values()])",
        "        if m.name in mx.get_models() and mx.get_models()[m.name] is m:",
        "            holders = [(o.fullname, n) for o in [m] + list(m.spaces.values()) for n, v in o.refs.items()",
        "                       if isinstance(v, (pd.DataFrame, pd.Series)) or (type(v).__name__ == 'module' "
        "and n != '__builtins__')]",
        "            print(tag, m.name, 'references holding pandas/module values:', holders)",
        "",
    ]
    nmods = 0

    def site(op):
        return op["m"] if op["space"] is None else "%s.%s" % (op["m"], op["space"])

    for op in hist:
        k = op["op"]
        if k == "new_pandas":
            path, ft, sheet = location(op["val"], op["loc"])
            s = "%s.new_pandas(%r, %r, %s, file_type=%r, sheet=%r)" % (site(op), op["name"], path, op["val"], ft, sheet)
        elif k == "new_module":
            nmods += 1
            s = "mod%d = %s.new_module(%r, %r, modsrc)" % (nmods, site(op), op["name"], MODPATH)
        elif k == "assign":
            v = {"zero": "0", "mod": "mod%d" % nmods}.get(op["val"], op["val"])
            s = "%s.%s = %s" % (site(op), op["name"], v)
        elif k == "del":
            s = "del %s.%s" % (site(op), op["name"])
        elif k == "update":
            newlab, _ = new_value_of_update(op)
            s = "%s.update_pandas(%s%s)" % (op["m"], op["old"], "" if newlab is None else ", " + newlab)
        elif k == "bases":
            s = "M1.B.%s_bases(M1.A)" % op["how"]
        elif k == "delspace":
            s = "del %s.%s" % (op["m"], op["space"])
        elif k == "close":
            s = "%s.close()" % op["m"]
        L.append("try:\n    %s\nexcept Exception as e:\n    print('raised:', type(e).__name__, e)" % s)
    L.append("show('after ')")
    if case.get("write_read"):
        L += ["for m in (M1, M2):",
              "    if m.name in mx.get_models():",
              "        out = os.path.join(tmp.name, 'out_' + m.name)",
              "        m.write(out); rb = mx.read_model(out, name='RB' + m.name)",
              "        print(sorted(os.listdir(out)), rb.iospecs)"]
    L.append("tmp.cleanup()")
    return "\n".join(L)


# --------------------------------------------------------------------------------------
# evidence

def coverage(agg, tier):
    c = agg["counts"]
    phases = BOUNDS[tier]
    cov = {
        "states": c.get("states", 0),
        "transitions": c.get("transitions", 0),
        "traces_validated_against_impl": c.get("transitions", 0),
        "depth": max(b["depth"] for b in phases),
        "roots": agg["items"],
        "alphabet_size": max(alphabet_size(b) for b in phases),
        "exhaustive": True,
        "caps_hit": [],
        "phases": [dict(b, alphabet_size=alphabet_size(b), states=c.get("states[%s]" % b["id"], 0),
                        transitions=c.get("transitions[%s]" % b["id"], 0)) for b in phases],
        "rejected_creations": c.get("rejected_creation", 0),
        "ops_raised": c.get("raised", 0),
        "specs_created": c.get("created", 0),
        "specs_orphaned_by_reference_model": c.get("orphaned", 0),
        "write_read_runs": c.get("write_read_runs", 0),
        "merged_transitions": c.get("merged", 0),
        "violating_transitions": c.get("violating_transitions", 0),
        "rule": "per phase: BFS over all histories of <= depth ops (per-state alphabet = applicable ops) from the "
                "root configuration; work items = all applicable 2-op prefixes, each explored to the full depth "
                "with its own seen-set (states = sum over items of distinct canonical states); violating states "
                "are terminal; every transition is an execution of the real modelx from a fresh world; "
                "write-read is run once per distinct IO configuration with >= 1 live spec per worker process",
    }
    if "audit_items" in c:
        cov["canon_audit"] = "ok" if c.get("audit_mismatch", 0) == 0 else "mismatch"
        cov["canon_audit_depth"] = "depth-1 of every phase, below every 1-op prefix"
        cov["canon_audit_states"] = c.get("audit_states", 0)
        cov["canon_audit_transitions_unmerged"] = c.get("audit_transitions_unmerged", 0)
        cov["canon_audit_transitions_merged"] = c.get("audit_transitions_merged", 0)
    return cov


def vacuity(agg, tier):
    c = agg["counts"]
    if c.get("states", 0) < 300:
        return "too few states (%d)" % c.get("states", 0)
    for k in ("rejected_creation", "created", "orphaned", "updated", "write_read_runs"):
        if c.get(k, 0) < 1:
            return "no transition of kind %s" % k
    if len(agg["outcomes"]) < 10:
        return "too few distinct outcomes"
    if c.get("audit_mismatch", 0):
        return "canon audit mismatch (merged and unmerged exploration disagree)"
