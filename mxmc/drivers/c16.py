"""C16 Memory-optimised runs give the direct results and keep only the targets.

Enumerates ALL dags on n topologically numbered elements x two encodings x input / uncached
variants x ALL non-empty target sets x ALL step sizes 1..n+1 and runs
generate_actions / execute_actions of the real implementation on each.
"""
import itertools
import json

import modelx as mx
from mxmc.session import reset_world, TICK, render, digest, safe

PROPERTY = "C16"
LEVEL = "exploration"
ASSUMPTIONS = [
    "the model is clean (no calculated value held) when generate_actions is called",
    "targets are elements of cached cells; uncached cells occur only as intermediates",
    "CPython 3.12, networkx topological_sort as installed",
]


def all_dags(n):
    pairs = [(j, i) for i in range(n) for j in range(i)]
    for bits in range(1 << len(pairs)):
        yield [p for k, p in enumerate(pairs) if bits >> k & 1]


def ref_values(n, edges, inputs):
    preds = {i: [j for (j, k) in edges if k == i] for i in range(n)}
    val = {}
    for i in range(n):
        if i in inputs:
            val[i] = 1000 + i
        else:
            val[i] = 1 + 7 * i + sum(val[j] for j in preds[i])
    return preds, val


def closure(preds, targets, inputs):
    """Non-input elements the targets depend on (incl. themselves), not looking through inputs."""
    seen = set()
    stack = [t for t in targets if t not in inputs]
    while stack:
        i = stack.pop()
        if i in seen:
            continue
        seen.add(i)
        for j in preds[i]:
            if j not in inputs and j not in seen:
                stack.append(j)
    return seen


def build(case):
    n, edges, enc = case["n"], [tuple(e) for e in case["edges"]], case["enc"]
    inputs, uncached = set(case.get("inputs", [])), set(case.get("uncached", []))
    reset_world()
    m = mx.new_model("M")
    m.tick = TICK
    s = m.new_space("S")
    preds, val = ref_values(n, edges, inputs)
    if enc == "A":
        s.PREDS = {i: preds[i] for i in range(n)}
        s.new_cells("v", formula="lambda i: tick() + 1 + 7 * i + sum(v(j) for j in PREDS[i])")
        for i in inputs:
            s.v[i] = val[i]
        elem = lambda i: (s.v, (i,))
        name = lambda i: ("S.v", [i])
    else:
        for i in range(n):
            body = " + ".join(["tick()", str(1 + 7 * i)] + ["e%d()" % j for j in preds[i]])
            s.new_cells("e%d" % i, formula="lambda: " + body, is_cached=i not in uncached)
        for i in inputs:
            s.cells["e%d" % i][()] = val[i]
        elem = lambda i: (s.cells["e%d" % i], ())
        name = lambda i: ("S.e%d" % i, [])
    return m, s, preds, val, elem, name


def held_set(s, n, enc):
    """Set of element indices holding a value."""
    out = set()
    if enc == "A":
        for k in s.v._impl.data:
            out.add(k[0])
    else:
        for i in range(n):
            if len(s.cells["e%d" % i]._impl.data):
                out.add(i)
    return out


def node_index(node, enc):
    if enc == "A":
        return node.args[0]
    return int(node.obj.name[1:])


def run_case(case, built=None):
    """Run one (model, targets, step) case; return (violations, outcome digest, nontrivial)."""
    n, enc = case["n"], case["enc"]
    inputs, uncached = set(case.get("inputs", [])), set(case.get("uncached", []))
    targets, step = case["targets"], case["step"]
    if built is None:
        built = build(case)
    m, s, preds, val, elem, name = built
    viols = []

    def bad(clause, observed, expected):
        viols.append({"clause": clause, "case": case, "observed": observed, "expected": expected})

    # clean start (harness precondition)
    if held_set(s, n, enc) != inputs:
        m.clear_all()
        for i in inputs:
            c, k = elem(i)
            c[k if enc == "B" else k[0]] = val[i]
    assert held_set(s, n, enc) == inputs, "harness: could not reach a clean start"
    TICK.take_log()
    tnodes = [elem(t)[0].node(*elem(t)[1]) for t in targets]
    try:
        actions = m.generate_actions(tnodes, step_size=step)
    except BaseException as e:
        bad("generate-raises", type(e).__name__ + ": " + str(e)[:100], "actions")
        return viols, "gen-exc", True
    TICK.take_log()
    h = held_set(s, n, enc)
    if h != inputs:
        bad("generate-clean", sorted(h - inputs), [])
    # plan
    clo = closure(preds, targets, inputs)
    cached_clo = {i for i in clo if i not in uncached}
    pos = {}
    dup = []
    p = 0
    plan = []
    for act, nodes in actions:
        idxs = [node_index(nd, enc) for nd in nodes]
        plan.append([act, idxs])
        if act == "calc":
            for i in idxs:
                if i in pos:
                    dup.append(i)
                pos[i] = p
                p += 1
    if dup:
        bad("plan-once", sorted(set(dup)), "each element in exactly one calc step")
    missing = sorted(cached_clo - set(pos))
    if missing:
        bad("plan-complete", {"missing": missing, "plan": plan}, sorted(cached_clo))
    extra = sorted(i for i in pos if i not in clo)
    if extra:
        bad("plan-extra", {"extra": extra, "plan": plan}, sorted(cached_clo))
    # order: after all (cached, non-input) elements it depends on, looking through uncached ones
    def cached_deps(i):
        out, st = set(), list(preds[i])
        while st:
            j = st.pop()
            if j in inputs:
                continue
            if j in uncached:
                st.extend(preds[j])
            else:
                out.add(j)
        return out
    for i in pos:
        if i in uncached or i in inputs:
            continue
        for j in cached_deps(i):
            if j in pos and pos[j] > pos[i]:
                bad("plan-order", {"elem": i, "dep": j, "plan": plan}, "dep first")
    # execute
    TICK.take_log()
    try:
        m.execute_actions(actions)
    except BaseException as e:
        bad("execute-raises", type(e).__name__ + ": " + str(e)[:100], "ok")
        return viols, "exec-exc", True
    log = TICK.take_log()
    counts = {}
    for (nm, key) in log:
        i = json.loads(key)[1] if enc == "A" else int(nm.split(".e")[1])
        counts[i] = counts.get(i, 0) + 1
    twice = sorted(i for i, c in counts.items() if c > 1 and i not in uncached)
    if twice:
        bad("no-recompute", {"twice": twice, "plan": plan}, "each element computed at most once")
    h = held_set(s, n, enc)
    want = set(t for t in targets) | inputs
    if h - want:
        bad("only-targets", {"left": sorted(h - want), "plan": plan}, sorted(want))
    if want - h:
        bad("targets-held", {"missing": sorted(want - h), "plan": plan}, sorted(want))
    TICK.take_log()
    for t in targets:
        c, k = elem(t)
        got = safe(lambda: c._impl.data.get(k, "<absent>"))
        if got != val[t]:
            bad("targets", {"elem": t, "value": render(got)}, val[t])
    # targets must be served without recomputation now
    for t in targets:
        c, k = elem(t)
        safe(lambda: c(*k))
    if TICK.take_log() and not viols:
        bad("targets-held", "target recomputed on access", "held")
    outcome = digest([plan, sorted(h)])
    nontrivial = bool(counts) and len(clo) >= 1
    return viols, outcome, nontrivial


def work_items(tier, seed):
    items = []
    nmax = 4 if tier == "quick" else 5
    for n in range(1, nmax + 1):
        for edges in all_dags(n):
            for enc in ("A", "B"):
                items.append({"n": n, "edges": edges, "enc": enc, "inputs": [], "uncached": []})
    # variants with one/two input elements and one uncached intermediate
    nv = 3 if tier == "quick" else 4
    for n in range(2, nv + 1):
        for edges in all_dags(n):
            for enc in ("A", "B"):
                for k in (1, 2):
                    for inputs in itertools.combinations(range(n), k):
                        items.append({"n": n, "edges": edges, "enc": enc, "inputs": list(inputs), "uncached": []})
            for k in (1, 2):
                for unc in itertools.combinations(range(n), k):
                    items.append({"n": n, "edges": edges, "enc": "B", "inputs": [], "uncached": list(unc)})
                    for i in range(n):
                        if i not in unc:
                            items.append({"n": n, "edges": edges, "enc": "B", "inputs": [i], "uncached": list(unc)})
    return items


def run_item(item, tier):
    n = item["n"]
    built = build(item)
    counts = {"runs": 0, "nontrivial": 0}
    outcomes = set()
    viols = []
    samples = []
    elems = [i for i in range(n) if i not in item["uncached"]]
    for k in range(1, len(elems) + 1):
        # the order in which the targets are listed is part of the input: all orders of up to three targets,
        # ascending and descending order of larger sets
        if k <= (3 if n <= 4 else 2):
            tsets = list(itertools.permutations(elems, k))
        elif n <= 4:
            tsets = [c for comb in itertools.combinations(elems, k) for c in (comb, comb[::-1])]
        else:
            tsets = list(itertools.combinations(elems, k))
        for targets in tsets:
            for step in range(1, n + 2):
                case = dict(item, targets=list(targets), step=step)
                try:
                    vs, oc, nt = run_case(case, built)
                except AssertionError:
                    built = build(item)
                    vs, oc, nt = run_case(case, built)
                counts["runs"] += 1
                counts["nontrivial"] += bool(nt)
                outcomes.add(oc)
                if vs:
                    viols.extend(vs[:2])
                    built = build(item)      # do not trust a model after a violation
                if not samples and n >= 3 and len(item["edges"]) >= 2:
                    samples.append(case)
    return {"counts": counts, "outcomes": sorted(outcomes), "violations": viols, "samples": samples}


def check_case(case):
    vs, _, _ = run_case(case)
    return vs


def shrink_candidates(case):
    for k in range(len(case["edges"])):
        yield dict(case, edges=case["edges"][:k] + case["edges"][k + 1:])
    if len(case["targets"]) > 1:
        for k in range(len(case["targets"])):
            yield dict(case, targets=case["targets"][:k] + case["targets"][k + 1:])
    for key in ("inputs", "uncached"):
        for k in range(len(case.get(key, []))):
            yield dict(case, **{key: case[key][:k] + case[key][k + 1:]})
    # drop the last element if unused
    n = case["n"]
    if n > 1 and (n - 1) not in case["targets"] and all((n - 1) not in e for e in case["edges"]) \
            and (n - 1) not in case.get("inputs", []) and (n - 1) not in case.get("uncached", []):
        yield dict(case, n=n - 1)
    if case["step"] > 1:
        yield dict(case, step=case["step"] - 1)


def script(case):
    n, edges, enc = case["n"], [tuple(e) for e in case["edges"]], case["enc"]
    inputs, uncached = set(case.get("inputs", [])), set(case.get("uncached", []))
    preds, val = ref_values(n, edges, inputs)
    L = ["import modelx as mx", "m = mx.new_model(); s = m.new_space('S')"]
    if enc == "A":
        L.append("s.PREDS = %r" % ({i: preds[i] for i in range(n)},))
        L.append("s.new_cells('v', formula='lambda i: 1 + 7 * i + sum(v(j) for j in PREDS[i])')")
        for i in sorted(inputs):
            L.append("s.v[%d] = %d" % (i, val[i]))
        L.append("targets = [s.v.node(t) for t in %r]" % (case["targets"],))
    else:
        for i in range(n):
            body = " + ".join([str(1 + 7 * i)] + ["e%d()" % j for j in preds[i]])
            L.append("s.new_cells('e%d', formula='lambda: %s', is_cached=%r)" % (i, body, i not in uncached))
        for i in sorted(inputs):
            L.append("s.e%d[()] = %d" % (i, val[i]))
        L.append("targets = [s.cells['e%%d' %% t].node() for t in %r]" % (case["targets"],))
    L.append("actions = m.generate_actions(targets, step_size=%d)" % case["step"])
    L.append("print(actions)")
    L.append("m.execute_actions(actions)")
    L.append("print({n: dict(c) for n, c in s.cells.items()})   # expected values: %r" % (val,))
    return "\n".join(L)


def coverage(agg, tier):
    c = agg["counts"]
    return {
        "evaluations": c.get("runs", 0),
        "distinct_nontrivial": len(agg["outcomes"]),
        "rule": "all DAGs on n<=%d topologically numbered elements x 2 encodings (one cells v(i) / one cells per "
                "element) + input/uncached variants x all non-empty target sets, listed in every order (up to 3 targets, beyond that ascending and descending; n = 5: all orders of 2 targets, ascending beyond) x all step sizes 1..n+1; "
                "distinct_nontrivial = number of distinct (action plan, final held set) outcomes observed; "
                "runs in which at least one formula executed: %d" % (4 if tier == "quick" else 5, c.get("nontrivial", 0)),
        "exhaustive": True,
        "nontrivial_runs": c.get("nontrivial", 0),
    }


def vacuity(agg, tier):
    if agg["counts"].get("nontrivial", 0) < 100 or len(agg["outcomes"]) < 10:
        return "too few non-trivial runs"
