"""C02 No stale value survives any edit.

BFS over all interleavings (up to a depth) of edit operations and evaluations on a catalogue of
root models (one per kind of dependency path).  Oracle (differential, exactly the statement):
after every history, all probe queries on the live model == the same queries on a fresh model to
which only the edit operations of the history were applied.
"""
import json

from mxmc import bfs, ops as O
from mxmc.evalfam import ROOTS, World, canon_world
from mxmc.session import digest

PROPERTY = "C02"
LEVEL = "model_checking"
ASSUMPTIONS = [
    "differential oracle: the edits-only twin model is built by the same implementation; its absolute "
    "correctness is checked separately by C01 (reference evaluator)",
    "values compared: returned value or type of the original exception; messages/tracebacks not compared",
    "alphabets and roots as listed in mxmc/evalfam.py; depth bound as reported",
]

DEPTH = {"quick": 3, "thorough": 4}
WARM_DEPTH = {"quick": 2, "thorough": 3}      # histories starting from the state in which all probes were evaluated
_fresh_memo = {}


def reference_probes(w):
    """Probe values according to the reference evaluator under the reference definitions, or None."""
    if w.rm is None:
        return None
    from mxmc.refsem import Evaluator
    from mxmc.session import render
    ev = Evaluator(w.rm)
    out = []
    for p in w.root["probes"]:
        try:
            r = ev.eval(p["sp"], p["c"], tuple(p.get("args", [])))
        except Exception:
            return None
        if r[0] != "ok" and type(r[1]).__name__ in ("NoLinearisation", "KeyError", "RefError", "Inapplicable"):
            return None     # the reference model does not define this state
        out.append(("ok", render(r[1])) if r[0] == "ok" else ("exc", "FormulaError:" + type(r[1]).__name__))
    return out


def fresh_probes(rootname, edits):
    key = (rootname, json.dumps(edits, sort_keys=True))
    r = _fresh_memo.get(key)
    if r is None:
        w = World(rootname)
        okall = True
        eobs = []
        for op in edits:
            eobs.append(w.apply(op, track_ref=True)[0])
            if eobs[-1] != "ok":
                okall = False
        r = w.probe_all()
        # absolute oracle for the twin: where the reference model defines the edited model (all edits accepted
        # and tracked), the twin's values must equal the reference evaluator's
        # (the reference model tracks definitions; what an edit does to *inputs* of the edited cells and how
        # renames re-point references is not modelled - such histories are left to the differential clause)
        simple = not any(op["op"] in ("set_input", "rename_space", "rename_cells", "add_bases", "del_cells", "del_space")
                         for op in edits)   # (deleted objects: the reference model names objects by path, not identity)
        ref = reference_probes(w) if (okall and simple) else None
        r = (r, ref, eobs)
        if len(_fresh_memo) > 200000:
            _fresh_memo.clear()
        _fresh_memo[key] = r
    return r


def run_history(rootname, hist, warm=False):
    w = World(rootname, warm=warm)
    obs = [w.apply(op, track_ref=False) for op in hist]
    canon = canon_world(w)
    live = w.probe_all()
    edits = [op for op in hist if O.is_edit(op)]
    fresh, ref, fresh_eobs = fresh_probes(rootname, edits)
    viols = []
    # an edit the edits-only model accepts is accepted whatever was evaluated before it
    live_eobs = [ob[0] for op, ob in zip(hist, obs) if O.is_edit(op)]
    for i, (f, l) in enumerate(zip(fresh_eobs, live_eobs)):
        if f == "ok" and l != "ok":
            viols.append({"clause": "edit-accepted", "case": {"root": rootname, "history": hist, "warm": warm},
                          "observed": {"edit": edits[i], "live": [ob for op, ob in zip(hist, obs) if O.is_edit(op)][i]},
                          "expected": "accepted, as on the model to which only the edits were applied"})
            break
    if ref is not None:
        cmp = [(a, b) for a, b in zip(fresh, ref)
               if a != b and not (a[0] == "exc" and b[0] == "exc")]   # only the fact of failing is compared for errors
        if cmp:
            i = [k for k, (a, b) in enumerate(zip(fresh, ref)) if (a, b) == cmp[0]][0]
            viols.append({"clause": "fresh==reference", "case": {"root": rootname, "history": edits, "warm": False},
                          "observed": {"probe": ROOTS[rootname]["probes"][i], "edits_only_model": fresh[i]},
                          "expected": {"reference_evaluator": ref[i]}})
    if live != fresh:
        bad = [i for i, (a, b) in enumerate(zip(live, fresh)) if a != b]
        viols.append({"clause": "live==fresh", "case": {"root": rootname, "history": hist, "warm": warm},
                      "observed": {"probe": ROOTS[rootname]["probes"][bad[0]], "live": live[bad[0]]},
                      "expected": {"fresh": fresh[bad[0]]}})
    info = {"nevals": sum(1 for op in hist if not O.is_edit(op))}
    return canon, viols, digest([obs, live]), info


def _spec_uncached():
    out = {}
    for name, r in ROOTS.items():
        acc = []

        def rec(prefix, d):
            for n, sd in d.items():
                for cn, cd in sd.get("cells", {}).items():
                    if isinstance(cd, dict) and cd.get("cached") is False:
                        acc.append((prefix + n, cn))
                rec(prefix + n + ".", sd.get("spaces", {}))
        rec("", r["spec"]["spaces"])
        out[name] = acc
    return out


SPEC_UNCACHED = _spec_uncached()


def enabled_for(rootname):
    r = ROOTS[rootname]
    alphabet = r["edits"] + r["evals"]

    def enabled(hist, info):
        last = hist[-1] if hist else None
        from mxmc.evalfam import prune_noop_flags
        return [op for op in prune_noop_flags(hist, alphabet, SPEC_UNCACHED.get(rootname, ())) if op != last]
    return enabled


def work_items(tier, seed):
    items = []
    for name, r in ROOTS.items():
        for op in r["edits"] + r["evals"]:
            items.append({"root": name, "first": op, "warm": False})
        for op in r["edits"]:
            items.append({"root": name, "first": op, "warm": True})
    return items


def run_item(item, tier):
    name = item["root"]
    warm = item.get("warm", False)
    res = bfs.explore(lambda h: run_history(name, h, warm), enabled_for(name),
                      WARM_DEPTH[tier] if warm else DEPTH[tier], prefix=[item["first"]])
    res.samples = [{"root": name, "history": h, "warm": warm} for h in res.samples]
    out = res.as_item_result()
    out["counts"]["alphabet_max"] = 0
    return out


def check_case(case):
    _fresh_memo.clear()
    return run_history(case["root"], case["history"], case.get("warm", False))[1]


def shrink_candidates(case):
    h = case["history"]
    for i in range(len(h)):
        yield dict(case, history=h[:i] + h[i + 1:])
    if case.get("warm"):
        yield dict(case, warm=False)


def script(case):
    r = ROOTS[case["root"]]
    pre = O.spec_to_python(r["spec"])
    if case.get("warm"):
        pre += "\n" + "\n".join(O.op_to_python(p) for p in r["probes"])
    lines = [pre, "\n".join(O.op_to_python(o) for o in case["history"]), "# probes on the live model:"]
    lines += [O.op_to_python(p) for p in r["probes"]]
    lines.append("# expected: the values printed by the same probes on a fresh model to which only the "
                 "non-print (edit) lines above were applied")
    return "\n".join(lines)


def coverage(agg, tier):
    c = agg["counts"]
    return {
        "states": c.get("states", 0), "transitions": c.get("transitions", 0),
        "traces_validated_against_impl": c.get("transitions", 0),
        "merged": c.get("merged", 0), "depth": DEPTH[tier], "roots": len(ROOTS),
        "alphabet_sizes": {n: len(r["edits"]) + len(r["evals"]) for n, r in ROOTS.items()},
        "exhaustive": True,
        "explanation": "every history of <= depth ops (edits and evaluations) over each root's alphabet is "
                       "replayed on the real implementation from a fresh session; every transition is an "
                       "implementation execution; states = distinct canonical session states per work item",
    }


def vacuity(agg, tier):
    if len(agg["outcomes"]) < 50:
        return "too few distinct outcomes: %d" % len(agg["outcomes"])
