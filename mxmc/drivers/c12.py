"""C12 Names are unique per space and the visible namespace equals the containers.

BFS over member creation / deletion / renaming / base changes aimed at *indirect* clashes: the same two
names are used as cells in one space, reference in another, child space in a third; members are created in
bases of spaces already using the name for another kind; model references vs space names; parameter names vs
member names.  Every op is attempted (rejections are fine); after every op, for every static and dynamic
space: one kind per name, dir() / getattr / formula globals == containers, self-checks pass.
"""
import json

import modelx as mx
from modelx.core.system import mxsys

from mxmc import bfs, ops as O
from mxmc.session import reset_world, observe, safe, digest, session_canon, walk_spaces, space_path, render

PROPERTY = "C12"
LEVEL = "model_checking"
ASSUMPTIONS = [
    "the containers are read through the public mappings space.cells / space._own_refs / space.refs / "
    "space.spaces / model.spaces / model.refs; the namespace through dir(), getattr and the globals seen by a "
    "probe formula placed in every space",
]
DEPTH = {"quick": 3, "thorough": 4}
PROBE = "lambda: dict(globals())"
SPACES = ["A", "B", "C"]
NAMES = ["x", "y"]


def py(code):
    return {"op": "py", "code": code}


ROOTS = {
    "flat": [],
    "chain": [py("m.B.add_bases(m.A)"), py("m.C.add_bases(m.B)")],
    "fan": [py("m.C.add_bases(m.A, m.B)")],
    "tree": [py("m.B.add_bases(m.A)"), py("m.C.add_bases(m.A)")],
    "seeded": [py("m.A.new_cells('x', formula='lambda: 1')"), py("m.B.y = 2"), py("m.C.new_space('x')"),
               py("m.C.add_bases(m.B)")],
    "param": [py("m.A.formula = 'lambda x: None'"), py("m.B.add_bases(m.A)"), py("m.A[1]")],
    # a model-level reference exists before space-level ones of the same name are created (shadowing), with a
    # parametrised space, a child space in it and a sub space
    "shadow": [py("m.A.formula = 'lambda x: None'"), py("m.y = 7"), py("m.A.new_space('T')"),
               py("m.B.add_bases(m.A)"), py("m.A[1]")],
}


def alphabet(rootname):
    ops = []
    for s in SPACES:
        for n in NAMES:
            ops.append(py("m.%s.new_cells(%r, formula='lambda: 1')" % (s, n)))
            ops.append(py("m.%s.set_ref(%r, 5, 'auto')" % (s, n)))
            ops.append(py("m.%s.new_space(%r)" % (s, n)))
            ops.append(py("delattr(m.%s, %r)" % (s, n)))
        ops.append(py("m.%s.cells['x'].rename('y')" % s))
        ops.append(py("m.%s.spaces['x'].rename('y')" % s))
        for t in SPACES:
            if t != s:
                ops.append(py("m.%s.add_bases(m.%s)" % (s, t)))
                ops.append(py("m.%s.remove_bases(m.%s)" % (s, t)))
    ops += [py("m.x = 7"), py("del m.x"), py("m.new_space('x')"), py("m.A = 1"), py("m.A.rename('x')"),
            py("m.y = m.A"), py("del m.y")]
    if rootname in ("param", "shadow"):
        ops += [py("m.A.formula = 'lambda y: None'"), py("m.A.formula = 'lambda x, y=0: None'"), py("m.A[1]"),
                py("m.B[2]"), py("m.A.new_space('Q', formula='lambda x: None')"), py("m.A[1].Q[2]")]
    return ops


def build(rootname):
    reset_world()
    m = mx.new_model("M")
    for s in SPACES:
        sp = m.new_space(s)
        sp.new_cells("probe", formula=PROBE)
    for op in ROOTS[rootname]:
        O.apply_impl(m, op)
    return m


SYS = {"_self", "_space", "_model"}


def check_space(s, m, bad):
    path = space_path(s)
    impl = s._impl
    cells = safe(lambda: dict(s.cells))
    own = safe(lambda: dict(s._own_refs))
    refs = safe(lambda: dict(s.refs))
    spaces = safe(lambda: dict(s.named_spaces))
    if any(isinstance(v, str) for v in (cells, own, refs, spaces)):
        bad("broken", {"space": path, "cells": cells if isinstance(cells, str) else "ok",
                       "own_refs": own if isinstance(own, str) else "ok",
                       "refs": refs if isinstance(refs, str) else "ok",
                       "spaces": spaces if isinstance(spaces, str) else "ok"}, "readable containers")
        return
    # one kind per name
    for a, b, an, bn in ((cells, own, "cells", "own refs"), (cells, spaces, "cells", "child spaces"),
                         (own, spaces, "own refs", "child spaces")):
        both = sorted(set(a) & set(b))
        if both:
            bad("one-kind", {"space": path, "names": both, "kinds": [an, bn]}, "a name denotes one kind of thing")
            return
    # precedence among references: a space-level reference hides the model-level one of the same name - in the
    # space itself and in every dynamic space built from it (where nothing of that space's own overrides it)
    def same_value(a, b):
        return a is b or (type(a) is type(b) and not hasattr(a, "_impl") and safe(lambda: a == b) is True)
    mrefs = safe(lambda: dict(m.refs))
    if isinstance(mrefs, dict):
        if not impl.is_dynamic():
            for n in sorted(set(own) & set(mrefs)):
                if not same_value(refs.get(n), own[n]):
                    bad("refs-precedence", {"space": path, "name": n, "refs[name]": render(refs.get(n)),
                                            "model-level": render(mrefs[n])}, {"space-level": render(own[n])})
                    return
        else:
            base = safe(lambda: impl._dynbase.interface)
            bown = safe(lambda: dict(base._own_refs)) if not isinstance(base, str) else "x"
            # names bound as parameters along the way take precedence over every reference
            pnames = set()
            sp = base
            while not isinstance(sp, str) and hasattr(sp, "parameters"):
                pnames |= set(safe(lambda: sp.parameters or ()) or ())
                sp = safe(lambda: sp.parent)
            if isinstance(bown, dict):
                for n in sorted(set(bown) & set(mrefs)):
                    if n in own or n in pnames or hasattr(bown[n], "_impl"):
                        continue        # overridden by the dynamic space itself / an object that is re-bound
                    if not same_value(refs.get(n), bown[n]):
                        bad("refs-precedence", {"space": path, "name": n, "refs[name]": render(refs.get(n)),
                                                "model-level": render(mrefs[n])},
                            {"space-level (base %s)" % space_path(base): render(bown[n])})
                        return
    # parameters vs members
    params = safe(lambda: list(s.parameters) if s.parameters else [])
    # expected visible names
    expected = set(cells) | set(refs) | set(spaces)
    for name in (set(cells) | set(spaces)) & (set(refs) - set(own)):
        # a model-level / system / parameter name also used by a member
        if name in SYS:
            bad("one-kind", {"space": path, "names": [name], "kinds": ["member", "special name"]}, "distinct")
            return
    d = safe(lambda: set(dir(s)))
    if isinstance(d, str) or d != expected:
        bad("namespace-dir", {"space": path, "dir_only": sorted(d - expected) if not isinstance(d, str) else d,
                              "containers_only": sorted(expected - d) if not isinstance(d, str) else None},
            "dir(space) == cells + refs + child spaces")
        return
    # getattr resolves to the object held by the container (space-level members take precedence over refs)
    for n in sorted(expected):
        if n == "__builtins__":
            continue
        got = safe(lambda: getattr(s, n))
        wants = []
        if n in cells:
            wants.append(cells[n])
        if n in spaces:
            wants.append(spaces[n])
        if n in refs:
            # a model-level reference / parameter / special name may share its name with a member; the
            # statement fixes no precedence between them, so either resolution is accepted
            wants.append(refs[n])
        same = any(got is want or (not isinstance(got, str) and type(got) is type(want)
                                   and not hasattr(got, "_impl") and safe(lambda: got == want) is True)
                   for want in wants)
        want = wants[0]
        if not same:
            bad("namespace-getattr", {"space": path, "name": n, "got": render(got), "container": render(want)},
                "getattr(space, name) is the container's object")
            return
    # formula globals
    if "probe" in cells:
        g = observe_raw(lambda: cells["probe"]())
        if g is None:
            bad("namespace-formula", {"space": path, "error": "probe raised"}, "globals readable")
            return
        names = set(g)
        if names != expected | {"__builtins__"}:
            bad("namespace-formula", {"space": path, "formula_only": sorted(names - expected - {"__builtins__"}),
                                      "containers_only": sorted(expected - names)},
                "names visible to a formula == cells + refs + child spaces")
            return
        for n in sorted(expected):
            if n == "__builtins__":
                continue
            v = g[n]
            ok = False
            if n in cells:
                ok = ok or getattr(v, "__self__", None) is cells[n]._impl or v is cells[n]
            if n in spaces:
                ok = ok or v is spaces[n]
            if n in refs:
                w = refs[n]
                ok = ok or v is w or (type(v) is type(w) and not hasattr(v, "_impl") and v == w)
            if not ok:
                bad("namespace-formula-binding", {"space": path, "name": n, "bound_to": render(v)},
                    "the object held by the container")
                return
        cells["probe"].clear()


def observe_raw(fn):
    try:
        return fn()
    except BaseException:
        return None


def judge(m, case):
    viols = []

    def bad(clause, observed, expected):
        viols.append({"clause": clause, "case": case, "observed": observed, "expected": expected})
    # model level
    ms = safe(lambda: set(m.spaces))
    mr = safe(lambda: set(m.refs) - {"__builtins__"})
    if isinstance(ms, str) or isinstance(mr, str):
        bad("broken", {"model spaces": ms if isinstance(ms, str) else "ok", "refs": mr if isinstance(mr, str) else "ok"}, "readable")
        return viols
    if ms & mr:
        bad("one-kind-model", sorted(ms & mr), "model spaces and model references are disjoint")
        return viols
    md = safe(lambda: set(dir(m)))
    if isinstance(md, str) or md - {"__builtins__"} != ms | mr:
        bad("namespace-dir-model", {"dir": sorted(md) if not isinstance(md, str) else md}, sorted(ms | mr))
        return viols
    for s in list(walk_spaces(m, dynamic=True)):
        if safe(lambda: s._is_valid()) is not True:
            continue
        check_space(s, m, bad)
        if viols:
            return viols
    s1 = observe(lambda: mxsys._check_sanity())
    if s1[0] != "ok":
        bad("sanity", s1, "mxsys._check_sanity() passes")
    s2 = observe(lambda: m._impl._check_sanity())
    if s2[0] != "ok":
        bad("sanity-model", s2, "model._impl._check_sanity() passes")
    return viols


def run_history(rootname, hist):
    m = build(rootname)
    obs = [O.apply_impl(m, op)[0] for op in hist]
    case = {"root": rootname, "history": hist}
    live = mxsys.models.get("M")
    if live is None or live.interface is not m:
        return {"gone": True}, [{"clause": "model-lost", "case": case, "observed": sorted(mxsys.models), "expected": "M"}], "gone", {}
    viols = judge(m, case)
    canon = session_canon(with_graph=False)
    return canon, viols, digest(obs), {"rejected": obs.count("exc")}


def work_items(tier, seed):
    items = []
    for r in ROOTS:
        for op in alphabet(r):
            items.append({"root": r, "first": op})
    return items


def run_item(item, tier):
    r = item["root"]
    alpha = alphabet(r)
    rej = [0]

    def rh(h):
        c, v, d, info = run_history(r, h)
        rej[0] += 1 if info.get("rejected") else 0
        return c, v, d, info
    depth = DEPTH[tier]
    if r not in ("flat", "tree"):
        depth -= 1      # quick: 3 on flat / tree, 2 elsewhere; thorough: 4 / 3
    res = bfs.explore(rh, lambda h, i: alpha, depth, prefix=[item["first"]])
    res.samples = [{"root": r, "history": h} for h in res.samples[:1]]
    out = res.as_item_result()
    out["counts"]["histories_with_rejections"] = rej[0]
    return out


def check_case(case):
    return run_history(case["root"], case["history"])[1]


def shrink_candidates(case):
    h = case["history"]
    for i in range(len(h)):
        yield {"root": case["root"], "history": h[:i] + h[i + 1:]}
    if case["root"] != "flat":
        yield {"root": "flat", "history": h}


def script(case):
    L = ["import modelx as mx", "m = mx.new_model('M')"]
    for s in SPACES:
        L.append("m.new_space(%r).new_cells('probe', formula=%r)" % (s, PROBE))
    for op in ROOTS[case["root"]]:
        L.append(op["code"])
    for op in case["history"]:
        L.append("try:\n    %s\nexcept Exception as e:\n    print('rejected', type(e).__name__)" % op["code"])
    L.append("for s in m.spaces.values():\n    print(s.name, sorted(s.cells), sorted(s._own_refs), sorted(s.spaces), sorted(dir(s)))")
    L.append("mx.core.mxsys._check_sanity()")
    return "\n".join(L)


def coverage(agg, tier):
    c = agg["counts"]
    return {"states": c.get("states", 0), "transitions": c.get("transitions", 0),
            "traces_validated_against_impl": c.get("transitions", 0), "merged": c.get("merged", 0),
            "roots": len(ROOTS), "depth": DEPTH[tier], "exhaustive": True,
            "alphabet_sizes": {r: len(alphabet(r)) for r in ROOTS},
            "histories_with_rejections": c.get("histories_with_rejections", 0)}


def vacuity(agg, tier):
    if agg["counts"].get("states", 0) < 1000 or agg["counts"].get("histories_with_rejections", 0) < 100:
        return "too few states / rejections: %s" % agg["counts"]
