"""C01 Memoisation is transparent: values equal uncached evaluation, computed once.

Programs: all assignments of formula templates (terminating grammar) to cells k, h, g, f of a space S
with child space T, references (space, model, one shadowing nothing, a built-in used normally).
Histories: BFS over all orders of element requests (with every call spelling).  Oracle: reference
evaluator (no cache) for values; tick() formula-start log for "never run again"; spellings that bind
equally denote the same element.
"""
import itertools
import json

from mxmc import bfs, ops as O
from mxmc.evalfam import q
from mxmc.refsem import Evaluator
from mxmc.session import reset_world, TICK, digest, render, held_values, session_canon

PROPERTY = "C01"
LEVEL = "model_checking"
ASSUMPTIONS = [
    "reference evaluator mxmc/refsem.py (shares only formula source text with modelx)",
    "formula starts observed through a model-level reference tick() called first by every generated formula",
    "argument values 0..1 (plus default / explicit second argument), depth bound as reported",
]

DEPTH = {"quick": 3, "thorough": 4}
P = "tick() + "

K = ["1", "r + G", "T.q", "max(1, 2)", "T.tc(1)", "NONE"]
H = ["x * 10 + y", "k() + x + y", "(h(x - 1, y) if x > 0 else y)", "T.tc(x) + y", "NONEIF"]
# NONE / NONEIF: elements whose value is None (allow_none on): a held None must be a cache hit like any value
SPECIAL = {"NONE": {"src": "lambda: None if tick() == 0 else 0", "allow_none": True},
           "NONEIF": {"src": "lambda x, y=2: None if tick() + x == 0 else x * 10 + y", "allow_none": True}}
G = ["x + r", "h(x)", "h(y=3, x=x)", "(g(x - 1) + 1 if x > 0 else k())", "_space.h(x, 1)",
     "sum([h(i) for i in range(x + 1)])", "h(x) + h(x, 2)"]
F = ["g(x) + h(x)", "g(x) + g(x)", "g(x) + k() + G", "[g(i) for i in range(x + 1)][-1] + _space.k()",
     "_self.g(x) + T.tc(x) + _model.G"]


def programs(tier):
    if tier == "quick":
        ks, hs, gs, fs = K[:2] + K[3:4] + K[5:6], H[:2] + H[4:5], G, F[:1] + F[3:4]
    else:
        ks, hs, gs, fs = K, H, G, F
    for k, h, g, f in itertools.product(range(len(ks)), range(len(hs)), range(len(gs)), range(len(fs))):
        yield {"k": ks[k], "h": hs[h], "g": gs[g], "f": fs[f]}


def spec_of(prog):
    return {"refs": {"tick": "<tick>", "G": 1},
            "spaces": {"S": {"refs": {"r": 2},
                             "cells": {"k": SPECIAL.get(prog["k"]) or "lambda: " + P + prog["k"],
                                       "h": SPECIAL.get(prog["h"]) or "lambda x, y=2: " + P + prog["h"],
                                       "g": "lambda x: " + P + prog["g"],
                                       "f": "lambda x: " + P + prog["f"]},
                             "spaces": {"T": {"refs": {"q": 5},
                                              "cells": {"tc": "lambda x: " + P + "x + q"}}}}}}


# queries: (cells, bound args) with all spellings that bind to the same element
def spellings(c, key):
    if c == "k":
        return [q("S", "k"), q("S", "k", how="value"), q("S", "k", how="attr")]
    if c == "h":
        x, y = key
        out = [q("S", "h", x, y), q("S", "h", x, y, how="kw"), q("S", "h", x, y, how="getitem"),
               {"op": "q", "sp": "S", "c": "h", "args": [{"list": [x, y]}], "how": "rawkey"}]
        if y == 2:
            out += [q("S", "h", x), q("S", "h", x, how="getitem"), q("S", "h", x, how="kw")]
        return out
    if c == "tc":
        x, = key
        return [q("S.T", "tc", x), q("S.T", "tc", x, how="getitem"), q("S.T", "tc", x, how="kw")]
    x, = key
    return [q("S", c, x), q("S", c, x, how="kw"), q("S", c, x, how="getitem"), q("S", c, x, how="getitem_t"),
            q("S", c, x, how="attr")]


ELEMS = [("k", ()), ("h", (0, 2)), ("h", (1, 2)), ("h", (1, 3)), ("g", (0,)), ("g", (1,)),
         ("f", (0,)), ("f", (1,)), ("tc", (1,))]


def alphabet():
    # one request op per element; the spelling used for the (computing) request rotates with the element
    # index; every other spelling is checked as an alias right after each request.
    out = []
    for i, (c, key) in enumerate(ELEMS):
        sp = spellings(c, key)
        out.append({"elem": [c, list(key)], "spell": i % len(sp)})
    return out


ALPHABET = alphabet()


def apply_query(m, op):
    if op.get("how") == "rawkey":
        sp = O.resolve(m, op["sp"])
        from mxmc.session import observe
        return observe(lambda: sp.cells[op["c"]][tuple(op["args"][0]["list"])])
    return O.apply_impl(m, op)


def held_set(m):
    return {k for k in held_values(m)}


def run_history(prog, hist):
    reset_world()
    m, rm = O.build_from_spec(spec_of(prog))
    ev = Evaluator(rm, tick=lambda: 0)
    viols = []
    obs = []
    case = {"prog": prog, "history": hist}

    def bad(clause, observed, expected):
        viols.append({"clause": clause, "case": case, "observed": observed, "expected": expected})

    for step in hist:
        c, key = step["elem"][0], tuple(step["elem"][1])
        sps = spellings(c, key)
        op = sps[step["spell"]]
        before = held_set(m)
        TICK.take_log()
        ob = apply_query(m, op)
        log = TICK.take_log()
        obs.append(ob)
        spath = "S.T" if c == "tc" else "S"
        r = ev.eval(spath, c, key)
        exp = ("ok", render(r[1])) if r[0] == "ok" else ("exc", "FormulaError:" + type(r[1]).__name__)
        if ob != exp:
            bad("value", {"query": op, "got": ob}, {"reference": exp})
            break
        # once: no element started twice, none that already held a value
        names = [(n, k) for (n, k) in log]
        if len(set(names)) != len(names):
            bad("once", {"query": op, "starts": names}, "each element started at most once")
            break
        again = [e for e in names if e in before]
        if again:
            bad("once-held", {"query": op, "restarted": again}, "held elements are not run again")
            break
        after = held_set(m)
        if ob[0] == "ok":
            if after != before | set(names):
                bad("held", {"query": op, "held": sorted(after), "before": sorted(before), "started": names},
                    "held after = held before + elements started")
                break
        # same element: every other spelling is a cache hit returning the same value
        cellsobj = O.resolve(m, spath).cells[c]
        nkeys = len(dict(cellsobj))
        for alt in sps:
            a = apply_query(m, alt)
            lg = TICK.take_log()
            if a != ob or (lg and ob[0] == "ok"):     # a failed request holds nothing: it may run again
                bad("same-element", {"first": op, "alt": alt, "alt_result": a, "formula_starts": lg},
                    {"result": ob, "formula_starts": []})
                break
        if viols:
            break
        if len(dict(cellsobj)) != nkeys or held_set(m) != after:
            bad("same-element", {"query": op, "keys": render(list(dict(cellsobj)))}, "one key per element")
            break
    canon = session_canon(with_graph=False)
    info = {"held": len(held_set(m))}
    return canon, viols, digest([obs]), info


def enabled(hist, info):
    done = {json.dumps(s["elem"]) for s in hist}
    return [a for a in ALPHABET if json.dumps(a["elem"]) not in done]


def work_items(tier, seed):
    return [{"prog": p} for p in programs(tier)]


def run_item(item, tier):
    prog = item["prog"]
    res = bfs.explore(lambda h: run_history(prog, h), enabled, DEPTH[tier])
    res.samples = [{"prog": prog, "history": h} for h in res.samples[:1]]
    return res.as_item_result()


def check_case(case):
    return run_history(case["prog"], case["history"])[1]


def shrink_candidates(case):
    h = case["history"]
    for i in range(len(h)):
        yield {"prog": case["prog"], "history": h[:i] + h[i + 1:]}


def script(case):
    lines = [O.spec_to_python(spec_of(case["prog"]))]
    for step in case["history"]:
        c, key = step["elem"][0], tuple(step["elem"][1])
        op = spellings(c, key)[step["spell"]]
        if op.get("how") == "rawkey":
            lines.append("print(m.S.%s[%r])" % (op["c"], tuple(op["args"][0]["list"])))
        else:
            lines.append(O.op_to_python(op))
    return "\n".join(lines)


def coverage(agg, tier):
    c = agg["counts"]
    return {"states": c.get("states", 0), "transitions": c.get("transitions", 0),
            "traces_validated_against_impl": c.get("transitions", 0), "merged": c.get("merged", 0),
            "programs": agg["items"], "depth": DEPTH[tier], "alphabet_size": len(ALPHABET),
            "exhaustive": True,
            "explanation": "programs = all template assignments; per program BFS over request orders of %d "
                           "elements x 2 spellings to the stated depth, all other spellings checked as aliases "
                           "after every request" % len(ELEMS)}


def vacuity(agg, tier):
    if len(agg["outcomes"]) < 20:
        return "too few distinct outcomes"
