"""C04 Write/read round trip (directory and zip) reproduces the model.

Bounded-exhaustive input enumeration.  A *case* is a small JSON object

    {"kind": cells|ref|doc|formula|bases|allow, "ctx": ..., "via": dir|zip, "chain": 1|2,
     "warm": bool, <focus attributes>}            (default-valued keys are omitted)

from which ``gen(case)`` produces the lines of a plain modelx program (the very same lines are
exec'ed to build the model and printed as the stand-alone reproduction script).  One focus
construct is taken over the full cross product of its attributes and embedded in contexts
(top-level space, nested space, space with a base - sibling and cross-tree relative path -,
parametrised space with ItemSpace inputs, nested parametrised spaces, model level).

Oracle (only what the property statement fixes):
  describe:<what>   public description equal before writing / after reading (space tree, direct
                    bases, parameter formulas, cells source/params/flags/doc, refs values and
                    targets, docs, inputs incl. ItemSpace inputs); NaN-aware; model name, `path`,
                    ItemSpace auto-names and container orders are NOT compared
  refmode-object    reference mode of every object-valued reference equal
  refmode-value     reference mode of every other reference equal (separate clause by design)
  values            every probe query (all cells of all static spaces and of the probed ItemSpaces)
                    returns the same value / raises the same original exception type
  readable          a write that did not raise can be read
  untouched         snapshot (description + name + held values + existing ItemSpaces) of the
                    source model identical before / after writing
  same-files        zip members == relative files of a directory written from the same model
  same-files:text   text members equal after normalising the id() numbers the format embeds
A write that raises is not a violation of the statement (it presupposes a successful write); it
is counted and listed in the evidence (``write_errors``).  Programs the API rejects while being
built (e.g. an input for an uncached cells, ``None`` as input without allow_none, a relative
reference that cannot be rebound in a sub space) are counted as ``unbuildable``; attribute
combinations that denote nothing (a mode for a model-level reference) as ``na``.

Probe arguments: 0 makes the generated formulas return None (observes the *effective*
allow_none of cells / space / model), 1 hits the input keys, 2 and (2, 3) always calculate; in
``warm`` cases the probes run before the write, so the written model holds calculated values and
live ItemSpaces, which must not come back as inputs.

Violations are minimised inside the worker with a memoised greedy shrinker (context -> simpler
context, every attribute -> its default, zip -> dir, chain 2 -> 1, warm -> cold), so that one
root cause yields one small signature.
"""
import os
import re
import sys
import json
import shutil
import zipfile
import tempfile
import itertools

import modelx as mx
from modelx.core.base import Interface
from modelx.core.errors import FormulaError
from mxmc.session import reset_world, digest

PROPERTY = "C04"
LEVEL = "exploration"
ASSUMPTIONS = [
    "models are built through public API from the stated vocabulary; one focus construct per model",
    "the description is taken through public API plus Interface._idtuple, _direct_bases, _own_refs and "
    "the ReferenceProxy (refmode / is_derived), which have no public equivalent",
    "values are compared with Python equality (NaN == NaN); True/1 and 1/1.0 are 'equal values'",
    "binary members (data.pickle) of zip and directory are compared by name only; text members after "
    "replacing the embedded id() numbers by their order of first occurrence",
    "a write that raises is outside the statement (counted in write_errors, not a violation)",
    "serializer format 6 only, backup default; IOSpec-backed values: one excel-backed DataFrame only (rest: C18)",
    "CPython 3.12, PYTHONHASHSEED=0",
]

# ----------------------------------------------------------------------------------------
# vocabulary

DOCS = {
    "none": None,
    "plain": "plain doc",
    "multi": "first line\n\n    indented\nlast",
    "endq": 'ends with "',
    "bsl": "back\\slash \\n",
    "tq": 'triple """ inside',
    "sq": "it's 'single'",
    "uni": "é ü ✓",
    "empty": "",
    "div": "head\n# " + "-" * 75 + "\n# References\ntail",
}
# docstring literals used inside def sources (doc given *in the source text*)
DOC_LITERAL = {
    "plain": '"""plain doc"""',
    "multi": '"""first line\n\n    indented\nlast"""',
    "endq": "'''ends with \"'''",
    "bsl": '"""back\\\\slash \\\\n"""',
    "tq": "'''triple \"\"\" inside'''",
    "sq": '"""it\'s \'single\'"""',
    "uni": '"""é ü ✓"""',
    "empty": '""""""',
    "div": '"""head\n# ' + "-" * 75 + '\n# References\ntail"""',
}
DOC_IDS = list(DOCS)

FORMS = ["lambda", "def", "defx"]
ALLOW = [None, True, False]
PARAMS = [1, 0, 2]
INPUTS = ["none", "int", "tuple", "noneval", "list", "strkey", "nan"]

BODY = {0: "7", 1: "None if x == 0 else x + 10", 2: "None if x == 0 else x * 10 + y"}
SIG = {0: "", 1: "x", 2: "x, y=1"}

# reference values: id -> python expression
REF_VALUES = {
    "one": "1", "true": "True", "false": "False", "zero": "0", "neg": "-1", "big": "2 ** 70",
    "float": "1.5", "negfloat": "-2.5", "exp": "1e+22", "small": "1e-07",
    "inf": 'float("inf")', "ninf": 'float("-inf")', "nan": 'float("nan")',
    "str": '"s"', "quote": '"q\\"uote"', "uninl": '"\\u00e9\\n"', "estr": '""', "bslstr": '"back\\\\slash"',
    "tab": '"tab\\t\'single\'"', "ls": '"a\\u2028b"', "none": "None",
    "list": "[1]", "dict": '{"a": 1}', "tuple": "(1, 2)", "set": "{1, 2}", "bytes": 'b"by"',
    "complex": "(1+2j)", "nested": '{"k": [1, (2, float("nan"))]}',
    "module": "math", "module2": "json.decoder",
    # IOSpec-backed values (DESIGN section 5 row 14): created by new_pandas / replaced by update_pandas
    "pandas": None, "pandas_upd": None,
}
REF_TARGETS = ["other", "self", "cells", "child", "childcells", "othercells", "model", "parent",
               "item", "itemcells"]
MODES = ["auto", "absolute", "relative"]
REF_NAMES = ["r", "max"]

PFORMULAS = {
    "lam": "lambda i: None",
    "lamd": "lambda i, k=2: None",
    "lamrefs": 'lambda i: {"refs": {"w": i * 2}}',
    "lambase": 'lambda i: {"base": _space, "refs": {"w": "x"}}',
    "lamml": "lambda i: (\n    None)",
    "def": "def _formula(i):\n    return None",
    "defn": 'def anyname(i):\n    """param doc"""\n    # a comment\n    return None  # trailing',
    "defd": "def _formula(i, k=2):\n    return {'refs': {'w': k}}",
}
ITEMS = ["none", "one", "two", "strarg", "nonearg", "tuparg", "child", "nested", "snested", "both", "kw2",
         # ItemSpace inputs next to references that the reader restores elsewhere: in a child space, in a base
         # space read after the parametrised one, at model level
         "childref", "baseref", "modelref"]

BASE_SHAPES = ["sib", "cross", "two", "two_r", "chain", "child", "diamond"]

DEFAULTS = {
    "cells": {"ctx": "top", "form": "lambda", "cached": True, "allow_none": None, "doc": "none",
              "docvia": "src", "params": 1, "inputs": "none"},
    "ref": {"ctx": "top", "value": "one", "target": "other", "mode": "auto", "name": "r"},
    "doc": {"ctx": "top", "doc": "plain"},
    "formula": {"ctx": "top", "pf": "lam", "items": "none", "setvia": "new"},
    "bases": {"ctx": "top", "shape": "sib", "member": "cells", "override": False, "dinput": False,
              "addvia": "new"},
    "allow": {"ctx": "top", "model_an": False, "space_an": None, "cells_an": None},
    # several members whose names are string prefixes of each other (files / archive members per name)
    "names": {"ctx": "top", "pair": "c1", "inputs_on": "second", "refs": "none"},
}
NAME_PAIRS = {"c1": ("c1", "c10"), "rate": ("rate", "rate_adj"), "a": ("a", "ab"), "x_": ("x", "x_")}
COMMON = {"via": "dir", "chain": 1, "warm": False}
CTX_SIMPLER = {"param2": "param", "base2": "base", "param": "top", "base": "top", "nested": "top"}


def full(case):
    c = dict(COMMON)
    c.update(DEFAULTS[case["kind"]])
    c.update(case)
    return c


def norm(case):
    """Canonical form: default-valued keys omitted."""
    kind = case["kind"]
    d = dict(COMMON)
    d.update(DEFAULTS[kind])
    out = {"kind": kind}
    for k, v in case.items():
        if k != "kind" and (k not in d or d[k] != v):
            out[k] = v
    return out


class NotApplicable(Exception):
    """The attribute combination does not denote a model (skipped, counted)."""


# ----------------------------------------------------------------------------------------
# program generation

def _ctx(ctx, formula=None):
    """Lines creating the focus space S; returns (lines, S steps, holder expr for inputs, item probe steps)."""
    fa = (", formula=%r" % formula) if formula is not None else ""
    if ctx == "top":
        return ['S = m.new_space("A"%s)' % fa], ["A"], "S", []
    if ctx == "nested":
        return ['N = m.new_space("N")', 'S = N.new_space("A"%s)' % fa], ["N", "A"], "S", []
    if ctx == "base":
        return ['S = m.new_space("B0"%s)' % fa, 'D = m.new_space("A", bases=[S])'], ["B0"], "S", []
    if ctx == "base2":
        return ['N = m.new_space("N")', 'S = N.new_space("B0"%s)' % fa, 'K = m.new_space("K")',
                'D = K.new_space("A", bases=[S])'], ["N", "B0"], "S", []
    if ctx == "param":
        if formula is not None:
            raise NotApplicable("ctx")
        return ['S = m.new_space("P", formula="lambda i: None")'], ["P"], "S[1]", [["P", (1,)], ["P", (2,)]]
    if ctx == "param2":
        return (['P = m.new_space("P", formula="lambda i: None")',
                 'S = P.new_space("Q"%s)' % (fa or ', formula="lambda j: None"')],
                ["P", "Q"], "P[1].Q[2]" if formula is None else "S",
                [["P", (1,), "Q", (2,)], ["P", (1,), "Q", (3,)], ["P", "Q", (2,)]] if formula is None else [])
    raise NotApplicable("ctx")


def _cells_src(form, p, docid, docvia):
    body = BODY[p]
    if form == "lambda":
        return "lambda%s: %s" % ((" " + SIG[p]) if p else "", body)
    lit = DOC_LITERAL[docid] if (docid != "none" and docvia == "src") else None
    if form == "def":
        L = ["def f(%s):" % SIG[p]]
        if lit:
            L.append("    " + lit)
        L.append("    return " + body)
        return "\n".join(L)
    if form == "defx":
        L = ["def other_name(%s):" % SIG[p]]
        if lit:
            L.append("    " + lit)
        L += ["    # a comment", "", "    z = 1  # inline", "    return " + body + "  # trailing comment"]
        return "\n".join(L)
    raise NotApplicable("form")


def _input_lines(holder, p, inputs, name="f"):
    t = "%s.%s" % (holder, name)
    if inputs == "none":
        return []
    if p == 0:
        if inputs == "int":
            return ["%s[()] = 5" % t]
        if inputs == "noneval":
            return ["%s[()] = None" % t]
        if inputs == "list":
            return ['%s[()] = [1, "a"]' % t]
        if inputs == "nan":
            return ['%s[()] = float("nan")' % t]
        raise NotApplicable("inputs")
    if inputs == "int":
        return ["%s[1] = 5" % t]
    if inputs == "tuple":
        return ["%s[(1,)] = 5" % t, "%s[(0,)] = 6" % t] if p == 1 else ["%s[1, 2] = 5" % t, "%s[0, 0] = 6" % t]
    if inputs == "noneval":
        return ["%s[1] = None" % t]
    if inputs == "list":
        return ['%s[1] = [1, "a"]' % t]
    if inputs == "strkey":
        return ['%s["a"] = 5' % t] if p == 1 else ['%s["a", None] = 5' % t]
    if inputs == "nan":
        return ['%s[1] = float("nan")' % t]
    raise NotApplicable("inputs")


def gen(case):
    """(lines, extra item probe steps).  The lines define ``m``."""
    c = full(case)
    kind, ctx = c["kind"], c["ctx"]
    head = ["import modelx as mx"]
    L = ['m = mx.new_model("M")']
    late = []
    items = []

    if kind == "cells":
        if ctx == "model":
            raise NotApplicable("ctx")
        form, p, docid, docvia = c["form"], c["params"], c["doc"], c["docvia"]
        if form == "lambda" and docvia != "src":
            raise NotApplicable("docvia")      # a lambda's doc is always given through the setter
        if docid == "none" and docvia != "src":
            raise NotApplicable("docvia")
        cl, steps, holder, items = _ctx(ctx)
        L += cl
        src = _cells_src(form, p, docid, docvia)
        L.append('S.new_cells("f", formula=%r%s)' % (src, "" if c["cached"] else ", is_cached=False"))
        if docid != "none" and (form == "lambda" or docvia == "setter"):
            L.append("S.f.doc = %r" % DOCS[docid])
        if c["allow_none"] is not None:
            L.append("S.f.allow_none = %r" % c["allow_none"])
        late += _input_lines(holder, p, c["inputs"])

    elif kind == "ref":
        val, tgt, mode, name = c["value"], c["target"], c["mode"], c["name"]
        if val != "obj" and tgt != DEFAULTS["ref"]["target"]:
            raise NotApplicable("target")
        if ctx == "model":
            if mode != "auto":
                raise NotApplicable("mode")          # model references have no mode
            if tgt in ("self", "cells", "child", "childcells", "parent"):
                raise NotApplicable("target")
            L.append('H = m.new_space("A")')
            S, host = "m", "H"
        else:
            cl, steps, holder, items = _ctx(ctx)
            L += cl
            S, host = "S", "S"
        if val == "obj":
            if tgt == "self":
                expr = "S"
            elif tgt == "cells":
                L.append('S.new_cells("t", formula="lambda x: x + 1")')
                expr = "S.t"
            elif tgt in ("child", "childcells"):
                L.append('T = S.new_space("T")')
                expr = "T"
                if tgt == "childcells":
                    L.append('T.new_cells("tc", formula="lambda x: x + 2")')
                    expr = "T.tc"
            elif tgt in ("other", "othercells"):
                L.append('O = m.new_space("O")')
                expr = "O"
                if tgt == "othercells":
                    L.append('O.new_cells("oc", formula="lambda x: x + 3")')
                    expr = "O.oc"
            elif tgt == "model":
                expr = "m"
            elif tgt == "parent":
                if ctx == "nested":
                    expr = "N"
                elif ctx == "param2":
                    expr = "P"
                else:
                    raise NotApplicable("target")
            elif tgt in ("item", "itemcells"):
                L.append('O = m.new_space("O", formula="lambda k: None")')
                L.append('O.new_cells("oc", formula="lambda x: x + k")')
                expr = "O[1]" if tgt == "item" else "O[1].oc"
            else:
                raise NotApplicable("target")
        else:
            expr = REF_VALUES[val]
            if val == "module":
                head.append("import math")
            if val == "module2":
                head.append("import json.decoder")
        L.append('%s.new_cells("get", formula="lambda: %s")' % (host, name))
        if val in ("pandas", "pandas_upd"):
            if mode != "auto":
                raise NotApplicable("mode")          # new_pandas takes no mode
            head.append("import pandas as pd")
            L.append('%s.new_pandas("%s", "data/%s.xlsx", pd.DataFrame({"a": [1, 2]}), file_type="excel")'
                     % (S, name, name))
            if val == "pandas_upd":
                L.append('m.update_pandas(%s.%s, pd.DataFrame({"a": [3, 4, 5]}))' % (S, name))
        elif S == "m":
            L.append("m.%s = %s" % (name, expr))
        else:
            L.append('S.set_ref("%s", %s, "%s")' % (name, expr, mode))

    elif kind == "doc":
        if ctx == "model":
            L.append('H = m.new_space("A")')
            L.append("m.doc = %r" % DOCS[c["doc"]])
        else:
            cl, steps, holder, items = _ctx(ctx)
            L += cl
            L.append("S.doc = %r" % DOCS[c["doc"]])
            L.append('S.new_cells("f", formula="lambda x: x + 10")')

    elif kind == "formula":
        pf, pat, setvia = c["pf"], c["items"], c["setvia"]
        if ctx in ("param", "model"):
            raise NotApplicable("ctx")
        F = PFORMULAS[pf]
        two = pf in ("lamd", "defd")
        if pat == "kw2" and not two:
            raise NotApplicable("items")
        if setvia == "new":
            cl, steps, holder, _ = _ctx(ctx, formula=F)
            L += cl
        else:
            cl, steps, holder, _ = _ctx(ctx, formula=None if ctx != "param2" else "lambda j: None")
            L += cl
            L.append("S.formula = %r" % F)
        names = ["i"] + (["k"] if two else []) + (["w"] if pf in ("lamrefs", "lambase", "defd") else [])
        L.append('S.new_cells("c", formula="lambda x: (%s, x)")' % ", ".join(names))
        if pat == "child":
            L.append('T = S.new_space("T")')
            L.append('T.new_cells("tc", formula="lambda x: x + 100")')
        if pat == "childref":
            L.append('T = S.new_space("T")')
            L.append('T.q = 3')
            L.append('T.new_cells("tc", formula="lambda x: x + q")')
        if pat == "baseref":
            L.append('ZB = m.new_space("ZB")')
            L.append('ZB.q = 3')
            L.append('ZB.new_cells("bc", formula="lambda x: x + q")')
            L.append('S.add_bases(ZB)')
        if pat == "modelref":
            L.append('m.q = 3')
            L.append('S.new_cells("mc", formula="lambda x: x + q")')
        if pat in ("nested", "snested", "both"):
            L.append('Q = S.new_space("Q2", formula="lambda j: None")')
            L.append('Q.new_cells("d", formula="lambda y: (j, y)")')
        pre = "P[1].Q" if ctx == "param2" else "S"
        lead = [["P", (1,), "Q"]] if ctx == "param2" else [list(steps)]
        a2 = ", 3" if two and pat == "kw2" else ""
        if pat in ("one", "childref", "baseref", "modelref"):
            late.append("%s[1].c[0] = 5" % pre)
        elif pat == "kw2":
            late.append("%s[1%s].c[0] = 5" % (pre, a2))
        elif pat == "two":
            late += ["%s[1].c[0] = 5" % pre, "%s[2].c[1] = 6" % pre, "%s[2].c[0] = 7" % pre]
        elif pat == "strarg":
            late.append('%s["a"].c[0] = 5' % pre)
        elif pat == "nonearg":
            late.append("%s[None].c[0] = 5" % pre)
        elif pat == "tuparg":
            late.append("%s[((1, 2),)].c[0] = 5" % pre)
        elif pat == "child":
            late.append("%s[1].T.tc[0] = 5" % pre)
        elif pat == "nested":
            late.append("%s[1].Q2[2].d[0] = 5" % pre)
        elif pat == "snested":
            if ctx == "param2":
                late.append("S.Q2[2].d[0] = 5")
            else:
                late.append("S.Q2[2].d[0] = 5")
        elif pat == "both":
            late += ["%s[1].c[0] = 5" % pre, "%s[1].Q2[2].d[0] = 6" % pre, "S.Q2[3].d[1] = 7"]
        elif pat != "none":
            raise NotApplicable("items")
        for ld in lead:
            items.append(ld + [(1,)])
            items.append(ld + [(4,)])

    elif kind == "bases":
        shape, member, ov, dinput, addvia = c["shape"], c["member"], c["override"], c["dinput"], c["addvia"]
        if ctx not in ("top", "nested"):
            raise NotApplicable("ctx")
        if dinput and member != "cells":
            raise NotApplicable("dinput")
        if ctx == "nested":
            L.append('W = m.new_space("W")')
            W = "W"
        else:
            W = "m"

        def sub(parent, bases):
            if addvia == "new":
                return ['D = %s.new_space("A", bases=[%s])' % (parent, ", ".join(bases))]
            return ['D = %s.new_space("A")' % parent, "D.add_bases(%s)" % ", ".join(bases)]

        def define(b, override=False):
            if member == "cells":
                if override:
                    return ['%s.f.formula = "lambda x: (\\"%s\\", x)"' % (b, b)]
                return ['%s.new_cells("f", formula="lambda x: (\\"%s\\", x)")' % (b, b)]
            if member == "ref":
                return ['%s.v = "%s"' % (b, b)] + ([] if override else ['%s.new_cells("get", formula="lambda: v")' % b])
            if member == "none":
                return []
            raise NotApplicable("member")
        # bases and their members first, the deriving space afterwards (derivation at creation time)
        if shape == "sib":
            L.append('B0 = %s.new_space("B0")' % W)
            L += define("B0")
            L += sub(W, ["B0"])
        elif shape == "cross":
            L += ['N = %s.new_space("N")' % W, 'B0 = N.new_space("B0")', 'K = %s.new_space("K")' % W]
            L += define("B0")
            L += sub("K", ["B0"])
        elif shape in ("two", "two_r"):
            L += ['B0 = %s.new_space("B0")' % W, 'B1 = %s.new_space("B1")' % W]
            L += define("B0") + define("B1")
            L += sub(W, ["B0", "B1"] if shape == "two" else ["B1", "B0"])
        elif shape == "chain":
            L += ['B1 = %s.new_space("B1")' % W]
            L += define("B1")
            L += ['B0 = %s.new_space("B0", bases=[B1])' % W]
            L += sub(W, ["B0"])
        elif shape == "child":
            L += ['B0 = %s.new_space("B0")' % W, 'X = %s.new_space("X")' % W]
            L += define("B0")
            L += sub("X", ["B0"])
        elif shape == "diamond":
            L += ['R = %s.new_space("R")' % W]
            L += define("R")
            L += ['B0 = %s.new_space("B0", bases=[R])' % W, 'B1 = %s.new_space("B1", bases=[R])' % W]
            L += define("B1", override=True)
            L += sub(W, ["B0", "B1"])
        else:
            raise NotApplicable("shape")
        if ov:
            if member == "none":
                raise NotApplicable("override")
            L += define("D", override=True)
        if dinput:
            late.append("D.f[1] = 5")

    elif kind == "allow":
        if ctx not in ("top", "nested"):
            raise NotApplicable("ctx")
        cl, steps, holder, items = _ctx(ctx)
        L += cl
        if c["model_an"]:
            L.append("m.allow_none = True")
        if c["space_an"] is not None:
            L.append("S.allow_none = %r" % c["space_an"])
        L.append('S.new_cells("f", formula="lambda x: None if x == 0 else x")')
        if c["cells_an"] is not None:
            L.append("S.f.allow_none = %r" % c["cells_an"])
    elif kind == "names":
        if ctx not in ("top", "nested", "param"):
            raise NotApplicable("ctx")
        cl, steps, holder, items = _ctx(ctx)
        L += cl
        n1, n2 = NAME_PAIRS[c["pair"]]
        L.append('S.new_cells(%r, formula="lambda x: x + 1")' % n1)
        L.append('S.new_cells(%r, formula="lambda x: x + 2")' % n2)
        on = c["inputs_on"]
        if on in ("first", "both"):
            late.append("%s.%s[1] = 50" % (holder, n1))
        if on in ("second", "both"):
            late.append("%s.%s[1] = 60" % (holder, n2))
        if c["refs"] == "pickled":      # pickled references with prefix-related names
            L.append("S.p = [1, 2]")
            L.append("S.pq = {'k': 3}")
        elif c["refs"] == "one":
            L.append("S.pq = {'k': 3}")
    else:
        raise NotApplicable("kind")
    return head + L + late, items


# ----------------------------------------------------------------------------------------
# rendering / description (public API; every accessor wrapped)

def safe(fn):
    try:
        return fn()
    except (KeyboardInterrupt, SystemExit):
        raise
    except BaseException as e:
        return "BROKEN:" + type(e).__name__


def rv(v, depth=0):
    """id()-free, name-free rendering; == on renderings is the (NaN-aware) value equality used."""
    if v is None or isinstance(v, (bool, int, str, bytes)):
        return v
    if isinstance(v, float):
        return "float:nan" if v != v else v
    if isinstance(v, complex):
        return ["complex", rv(v.real), rv(v.imag)]
    if isinstance(v, Interface):
        try:
            if not v._is_valid():
                return {"obj": "invalid"}
            return {"obj": type(v).__name__, "path": rv(tuple(v._idtuple[1:]))}
        except BaseException as e:
            return {"obj": "BROKEN:" + type(e).__name__}
    if depth > 6:
        return "<deep>"
    if isinstance(v, tuple):
        return ["tuple"] + [rv(x, depth + 1) for x in v]
    if isinstance(v, list):
        return ["list"] + [rv(x, depth + 1) for x in v]
    if isinstance(v, (set, frozenset)):
        return ["set"] + sorted((rv(x, depth + 1) for x in v), key=repr)
    if isinstance(v, dict):
        return ["dict"] + sorted(([rv(k, depth + 1), rv(x, depth + 1)] for k, x in v.items()), key=repr)
    if type(v).__name__ == "module":
        return "<module %s>" % v.__name__
    if type(v).__name__ in ("DataFrame", "Series") and hasattr(v, "to_csv"):
        return ["pandas", type(v).__name__, safe(lambda: v.to_csv())]
    return "<%s>" % type(v).__name__


def js(o):
    return json.dumps(o, sort_keys=True, default=repr)


def _is_obj(r):
    return isinstance(r, dict) and "obj" in r


def _pstr(steps):
    """Readable path of a rendered idtuple: A.T, P[1].Q[2]."""
    out = ""
    for s in steps:
        if isinstance(s, str):
            out += ("." if out else "") + s
        else:
            out += js(s[1:] if isinstance(s, list) and s and s[0] == "tuple" else s)
    return out


def _inputs(d, c, prefix):
    def go():
        one = len(c.parameters) == 1          # Mapping view of a one-parameter cells yields bare keys
        for key, val in list(c.items()):
            args = (key,) if one else tuple(key)
            if c.is_input(*args):
                d["input|%s|%s" % (prefix, js(rv(args)))] = rv(val)
    r = safe(go)
    if r is not None:
        d["input|%s|BROKEN" % prefix] = r


def _held(d, c, prefix):
    def go():
        one = len(c.parameters) == 1
        for key, val in list(c.items()):
            args = (key,) if one else tuple(key)
            d["held|%s|%s" % (prefix, js(rv(args)))] = [rv(val), bool(c.is_input(*args))]
    r = safe(go)
    if r is not None:
        d["held|%s|BROKEN" % prefix] = r


def _walk_dyn(d, s, snapshot):
    path = _pstr(rv(tuple(s._idtuple[1:]))[1:])
    if snapshot:
        d["dyn|%s" % path] = type(s).__name__
    for n, c in sorted(s.cells.items()):
        _inputs(d, c, path + "." + n)
        if snapshot:
            _held(d, c, path + "." + n)
    for n, ch in sorted(s.named_spaces.items()):
        _walk_dyn(d, ch, snapshot)
    for it in list(s.itemspaces.values()):
        _walk_dyn(d, it, snapshot)


def _ref(d, holder, hpath, name, snapshot=False):
    k = "ref|%s|%s|" % (hpath, name)
    def go():
        proxy = holder._get_object(name, as_proxy=True)
        d[k + "value"] = rv(proxy.value)
        mode = proxy.refmode
        if isinstance(mode, int) and not isinstance(mode, bool) and abs(mode) > 10 ** 6:
            mode = "<int id>"                  # an id() number stored as mode: rendered session-independently
        d[k + "mode"] = rv(mode)
        if snapshot:
            d[k + "derived"] = bool(proxy.is_derived())
    r = safe(go)
    if r is not None:
        d[k + "value"] = r


def _walk_static(d, s, path, snapshot):
    sk = "space|%s|" % path
    d[sk + "exists"] = type(s).__name__
    d[sk + "bases"] = safe(lambda: [_pstr(rv(tuple(b._idtuple[1:]))[1:]) for b in s._direct_bases])
    if snapshot:
        d[sk + "mro"] = safe(lambda: [_pstr(rv(tuple(b._idtuple[1:]))[1:]) for b in s.bases])
    d[sk + "formula"] = safe(lambda: s.formula.source if s.formula is not None else None)
    d[sk + "params"] = safe(lambda: list(s.parameters) if s.parameters is not None else None)
    d[sk + "doc"] = safe(lambda: s.doc)
    if snapshot:
        d[sk + "allow_none"] = safe(lambda: s.allow_none)
    cells = safe(lambda: sorted(s.cells.items()))
    if isinstance(cells, str):
        d[sk + "cells"] = cells
        cells = []
    for n, c in cells:
        ck = "cells|%s.%s|" % (path, n)
        d[ck + "src"] = safe(lambda: c.formula.source if c.formula is not None else None)
        d[ck + "params"] = safe(lambda: list(c.parameters))
        d[ck + "cached"] = safe(lambda: bool(c.is_cached))
        d[ck + "allow_none"] = safe(lambda: c.allow_none)
        d[ck + "doc"] = safe(lambda: c.doc)
        if snapshot:
            d[ck + "derived"] = safe(lambda: bool(c._is_derived()))
        _inputs(d, c, path + "." + n)
        if snapshot:
            _held(d, c, path + "." + n)
    refs = safe(lambda: sorted(n for n in s._own_refs if not n.startswith("_")))
    if isinstance(refs, str):
        d[sk + "refs"] = refs
        refs = []
    for n in refs:
        _ref(d, s, path, n, snapshot)
    def dyn():
        for it in list(s.itemspaces.values()):
            _walk_dyn(d, it, snapshot)
    r = safe(dyn)
    if r is not None:
        d[sk + "items"] = r
    subs = safe(lambda: sorted(s.named_spaces.items()))
    if isinstance(subs, str):
        d[sk + "spaces"] = subs
        subs = []
    for n, ch in subs:
        _walk_static(d, ch, path + "." + n, snapshot)


def describe(m, snapshot=False):
    """Flat {key: rendered leaf}: exactly what the statement lists.  snapshot=True adds everything else
    that is observable (name, allow_none of model / spaces, MRO, derived flags, held values, the set of
    existing dynamic spaces); the snapshot is used by clause ``untouched`` only."""
    d = {}
    d["model|doc"] = safe(lambda: m.doc)
    if snapshot:
        d["model|name"] = safe(lambda: m.name)
        d["model|allow_none"] = safe(lambda: m.allow_none)
    refs = safe(lambda: sorted(n for n in m.refs if not n.startswith("_")))
    if isinstance(refs, str):
        d["model|refs"] = refs
        refs = []
    for n in refs:
        _ref(d, m, "", n, snapshot)
    spaces = safe(lambda: sorted(m.spaces.items()))
    if isinstance(spaces, str):
        d["model|spaces"] = spaces
        spaces = []
    for n, s in spaces:
        _walk_static(d, s, n, snapshot)
    return d


ABSENT = "<absent>"


def clause_of(key, d0):
    parts = key.split("|")
    if parts[0] == "ref" and parts[-1] == "mode":
        val = d0.get(key[:-4] + "value")
        return "refmode-object" if _is_obj(val) else "refmode-value"
    if parts[0] == "input":
        return "describe:input"
    if parts[0] == "model":
        return "describe:model." + parts[-1]
    return "describe:%s.%s" % (parts[0], parts[-1])


def diff(d0, d1):
    """[(clause, key, expected, observed)] sorted by key; one entry per differing key."""
    out = []
    for k in sorted(set(d0) | set(d1)):
        a, b = d0.get(k, ABSENT), d1.get(k, ABSENT)
        if a != b:
            out.append((clause_of(k, d0 if k in d0 else d1), k, a, b))
    return out


# ----------------------------------------------------------------------------------------
# probes

def _resolve(m, steps):
    o = m
    for st in steps:
        if isinstance(st, str):
            o = o.spaces[st]
        else:
            o = o(*st)
    return o


def _steps_of(space):
    return [x for x in space._idtuple[1:]]


def _static_spaces(m):
    out = []
    stack = [s for _, s in sorted(m.spaces.items())]
    while stack:
        s = stack.pop(0)
        out.append(s)
        stack.extend(ch for _, ch in sorted(s.named_spaces.items()))
    return out


def _dyn_closure(space):
    out = [space]
    for _, ch in sorted(space.named_spaces.items()):
        out.extend(_dyn_closure(ch))
    return out


# 0 makes the generated formulas return None, 1 hits the input keys, 2 / (2, 3) always calculate
ARGS = {0: [()], 1: [(0,), (1,), (2,)], 2: [(0,), (1,), (1, 2), (2, 3)]}


def probe_plan(m, extra_items):
    """[(steps, cells name, args)] computed on the source model (resolving creates the ItemSpaces)."""
    locs = []
    for s in _static_spaces(m):
        locs.append(_steps_of(s))
        for it in list(s.itemspaces.values()):
            for x in _dyn_closure(it):
                locs.append(_steps_of(x))
                for it2 in list(x.itemspaces.values()):
                    locs.extend(_steps_of(y) for y in _dyn_closure(it2))
    for steps in extra_items:
        try:
            for x in _dyn_closure(_resolve(m, steps)):
                locs.append(_steps_of(x))
        except (KeyboardInterrupt, SystemExit):
            raise
        except BaseException:
            locs.append(list(steps))
    plan, seen = [], set()
    for steps in locs:
        k = repr(steps)
        if k in seen:
            continue
        seen.add(k)
        try:
            sp = _resolve(m, steps)
            cells = sorted(sp.cells.items())
        except (KeyboardInterrupt, SystemExit):
            raise
        except BaseException:
            continue
        for n, c in cells:
            for a in ARGS.get(len(c.parameters), [()]):
                plan.append((steps, n, a))
    return plan


def run_probes(m, plan):
    """{probe key: ("ok", rendered) | ("exc", type name)}; also the number of successful evaluations."""
    out = {}
    nok = 0
    for steps, n, a in plan:
        key = "%s.%s%s" % (_pstr(rv(tuple(steps))[1:]), n, js(rv(a)[1:]))
        try:
            v = _resolve(m, steps).cells[n](*a)
            out[key] = ["ok", rv(v)]
            nok += 1
        except FormulaError:
            e = mx.get_error()
            out[key] = ["exc", "FormulaError:" + type(e).__name__]
        except (KeyboardInterrupt, SystemExit):
            raise
        except BaseException as e:
            out[key] = ["exc", type(e).__name__]
    return out, nok


# ----------------------------------------------------------------------------------------
# files

_IDNUM = re.compile(r"\d{9,}")


def _norm_ids(texts):
    """Replace the id() numbers embedded in text members by their order of first occurrence."""
    table = {}
    out = {}
    for name in sorted(texts):
        def sub(mo):
            return "#%d" % table.setdefault(mo.group(0), len(table))
        out[name] = _IDNUM.sub(sub, texts[name])
    return out


def _is_text(name):
    return not name.endswith((".pickle", ".pkl", ".xlsx"))


def list_dir(path):
    names, texts = [], {}
    for d, _, files in os.walk(path):
        for f in files:
            p = os.path.join(d, f)
            rel = os.path.relpath(p, path).replace(os.sep, "/")
            names.append(rel)
            if _is_text(rel):
                with open(p, "rb") as fh:
                    texts[rel] = fh.read().decode("utf-8", "replace")
    return sorted(names), texts


def list_zip(path):
    names, texts = [], {}
    with zipfile.ZipFile(path) as z:
        for n in z.namelist():
            if n.endswith("/"):
                continue
            names.append(n)
            if _is_text(n):
                texts[n] = z.read(n).decode("utf-8", "replace")
    return sorted(names), texts


# ----------------------------------------------------------------------------------------
# one case

class Scratch:
    """One mkdtemp root; tempfile.tempdir points into it while modelx runs."""

    def __init__(self):
        self.root = None
        self.old = None
        self.n = 0

    def __enter__(self):
        self.old = tempfile.tempdir
        tempfile.tempdir = None
        self.root = tempfile.mkdtemp(prefix="mxmc-c04-")
        inner = os.path.join(self.root, "tmp")
        os.mkdir(inner)
        tempfile.tempdir = inner
        return self

    def sub(self):
        self.n += 1
        p = os.path.join(self.root, "c%d" % self.n)
        os.mkdir(p)
        return p

    def drop(self, p):
        shutil.rmtree(p, ignore_errors=True)

    def __exit__(self, *exc):
        tempfile.tempdir = self.old
        if self.root and os.path.isdir(self.root) and os.path.basename(self.root).startswith("mxmc-c04-"):
            shutil.rmtree(self.root, ignore_errors=True)
        return False


def _exc(e):
    return "%s: %s" % (type(e).__name__, str(e)[:160])


def build(case):
    lines, items = gen(case)
    reset_world()
    ns = {}
    exec(compile("\n".join(lines), "<c04-build>", "exec"), ns)
    return ns["m"], lines, items


def run_case(case, scratch):
    """Returns dict(status, violations, d0 digest, stats).  status: ok | na | unbuildable | write-error."""
    case = norm(case)
    c = full(case)
    res = {"status": "ok", "violations": [], "digest": None, "roundtrips": 0, "probe_ok": 0, "reason": None}
    try:
        m0, lines, items = build(case)
    except NotApplicable as e:
        res["status"], res["reason"] = "na", str(e)
        return res
    except (KeyboardInterrupt, SystemExit):
        raise
    except BaseException as e:
        res["status"], res["reason"] = "unbuildable", type(e).__name__
        return res
    viols = res["violations"]
    seen_clauses = set()

    def bad(clause, stage, observed, expected):
        if clause in seen_clauses:
            return
        seen_clauses.add(clause)
        vc = norm(dict(case, chain=stage + 1))
        viols.append({"clause": clause, "case": vc, "observed": observed, "expected": expected})

    def bad_diff(dref, dnew, stage):
        for clause, k, a, b in diff(dref, dnew):
            bad(clause, stage, {"key": k, "value": b}, {"key": k, "value": a})

    work = scratch.sub()
    try:
        zipped = c["via"] == "zip"
        d0 = describe(m0)
        res["digest"] = digest(sorted(d0.items()))
        plan = None
        v0 = None
        cur = m0
        for stage in range(c["chain"]):
            if c["warm"] and stage == 0:
                # warm: the written model holds calculated values (which must not be stored)
                plan = probe_plan(m0, items)
                v0, nok = run_probes(m0, plan)
                res["probe_ok"] += nok
            before = describe(cur, snapshot=True)
            path = os.path.join(work, "w%d%s" % (stage, ".zip" if zipped else ""))
            werr = None
            try:
                (cur.zip if zipped else cur.write)(path)
            except (KeyboardInterrupt, SystemExit):
                raise
            except BaseException as e:
                werr = e
            after = describe(cur, snapshot=True)
            if after != before:
                k = _first_diff(before, after)
                bad("untouched", stage, {"key": k, "value": after.get(k, ABSENT), "write_error": werr and _exc(werr)},
                    {"key": k, "value": before.get(k, ABSENT)})
            if werr is not None:
                res["status"], res["reason"] = "write-error", _exc(werr)
                break
            if zipped and stage == 0:
                dpath = os.path.join(work, "twin")
                try:
                    cur.write(dpath)
                    dn, dt = list_dir(dpath)
                    zn, zt = list_zip(path)
                    if dn != zn:
                        bad("same-files", stage, {"zip": zn}, {"dir": dn})
                    else:
                        dt, zt = _norm_ids(dt), _norm_ids(zt)
                        for n in dn:
                            if dt.get(n) != zt.get(n):
                                bad("same-files:text", stage, {"member": n, "zip": zt.get(n)},
                                    {"member": n, "dir": dt.get(n)})
                                break
                except (KeyboardInterrupt, SystemExit):
                    raise
                except BaseException as e:
                    bad("same-files", stage, {"dir_write": _exc(e)}, "zip write succeeded, directory write too")
                after2 = describe(cur, snapshot=True)
                if after2 != before:
                    k = _first_diff(before, after2)
                    bad("untouched", stage, {"key": k, "value": after2.get(k, ABSENT)},
                        {"key": k, "value": before.get(k, ABSENT)})
            if not c["warm"] and stage == 0:
                plan = probe_plan(m0, items)
                v0, nok = run_probes(m0, plan)
                res["probe_ok"] += nok
            try:
                nxt = mx.read_model(path, name="R%d" % (stage + 1))
            except (KeyboardInterrupt, SystemExit):
                raise
            except BaseException as e:
                bad("readable", stage, _exc(e), "a model")
                break
            res["roundtrips"] += 1
            dk = describe(nxt)
            bad_diff(d0, dk, stage)
            if viols:
                break
            if c["warm"]:
                probe_on = nxt          # the next write sees the calculated values
            else:
                # cold: the model that is written next stays pristine; probe a second reading
                try:
                    probe_on = mx.read_model(path, name="V%d" % (stage + 1))
                except (KeyboardInterrupt, SystemExit):
                    raise
                except BaseException as e:
                    bad("readable", stage, "second read: " + _exc(e), "a model")
                    break
            vk, nok = run_probes(probe_on, plan)
            res["probe_ok"] += nok
            if probe_on is not nxt:
                try:
                    probe_on.close()
                except BaseException:
                    pass
            if vk != v0:
                k = _first_diff(v0, vk)
                bad("values", stage, {"probe": k, "result": vk.get(k, ABSENT)}, {"probe": k, "result": v0.get(k, ABSENT)})
                break
            cur = nxt
    finally:
        scratch.drop(work)
        try:
            reset_world()
        except BaseException:
            pass
    return res


def _first_diff(a, b):
    return next(k for k in sorted(set(a) | set(b)) if a.get(k, ABSENT) != b.get(k, ABSENT))


def check_case(case):
    with Scratch() as sc:
        r = run_case(case, sc)
    return r["violations"]


# ----------------------------------------------------------------------------------------
# shrinking

ATTR_ORDER = {
    "cells": ["inputs", "doc", "docvia", "allow_none", "params", "cached", "form"],
    "ref": ["name", "target", "mode", "value"],
    "doc": ["doc"],
    "formula": ["items", "setvia", "pf"],
    "bases": ["dinput", "override", "addvia", "member", "shape"],
    "allow": ["cells_an", "space_an", "model_an"],
    "names": ["refs", "inputs_on", "pair"],
}


def shrink_candidates(case):
    case = norm(case)
    c = full(case)
    kind = c["kind"]
    seen = {js(case)}
    out = []

    def emit(**kw):
        cand = norm(dict(case, **kw))
        k = js(cand)
        if k not in seen:
            seen.add(k)
            out.append(cand)
    for k in ("chain", "warm", "via"):
        if c[k] != COMMON[k]:
            emit(**{k: COMMON[k]})
    ctx = c["ctx"]
    while ctx in CTX_SIMPLER:
        ctx = CTX_SIMPLER[ctx]
        emit(ctx=ctx)
    for a in ATTR_ORDER[kind]:
        if c[a] != DEFAULTS[kind][a]:
            emit(**{a: DEFAULTS[kind][a]})
    if kind == "cells" and c["form"] == "defx":
        emit(form="def")
    if kind == "cells" and c["inputs"] not in ("none", "int"):
        emit(inputs="int")
    if kind == "formula" and c["items"] not in ("none", "one"):
        emit(items="one")
    return out


_MEMO = {}


def _clauses_memo(case, scratch):
    k = js(case)
    if k not in _MEMO:
        _MEMO[k] = {v["clause"]: v for v in run_case(case, scratch)["violations"]}
    return _MEMO[k]


def minimise(viol, scratch):
    """Greedy shrink with a per-process memo (the runner shrinks again, which is then cheap)."""
    cur = viol
    changed = True
    while changed:
        changed = False
        for cand in shrink_candidates(cur["case"]):
            hit = _clauses_memo(cand, scratch).get(cur["clause"])
            if hit is not None and js(hit["case"]) == js(cand):
                cur = hit
                changed = True
                break
    return cur


# ----------------------------------------------------------------------------------------
# enumeration

CELL_DOCS = [d for d in DOC_IDS if d != "div"]     # the divider-line doc is enumerated at space / model level


def _cells_items(tier):
    out = []
    if tier == "quick":
        for via in ("dir", "zip"):
            for form in FORMS:
                for doc in CELL_DOCS:
                    for p in PARAMS:
                        out.append({"kind": "cells", "fix": {"ctx": "top", "via": via, "form": form, "doc": doc, "params": p},
                                    "free": {"cached": [True, False], "allow_none": ALLOW, "inputs": INPUTS,
                                             "docvia": ["src"]}})
        # the other contexts with reduced doc / input menus (full product of the rest)
        for ctx in ("nested", "base", "base2", "param", "param2"):
            for via in ("dir", "zip"):
                for form in FORMS:
                    out.append({"kind": "cells", "fix": {"ctx": ctx, "via": via, "form": form},
                                "free": {"cached": [True, False], "allow_none": ALLOW, "doc": ["none", "plain", "bsl"],
                                         "params": PARAMS, "inputs": ["none", "int", "tuple"], "docvia": ["src"]}})
    else:
        for ctx in ("top", "nested", "base", "base2", "param", "param2"):
            for via in ("dir", "zip"):
                for form in FORMS:
                    for p in PARAMS:
                        for doc in CELL_DOCS:
                            out.append({"kind": "cells",
                                        "fix": {"ctx": ctx, "via": via, "form": form, "doc": doc, "params": p,
                                                "chain": 2, "warm": False},
                                        "free": {"cached": [True, False], "allow_none": ALLOW, "inputs": INPUTS,
                                                 "docvia": ["src", "setter"]}})
                        # warm (calculated values held and ItemSpaces alive while writing): reduced doc menu
                        out.append({"kind": "cells",
                                    "fix": {"ctx": ctx, "via": via, "form": form, "params": p, "chain": 2, "warm": True},
                                    "free": {"cached": [True, False], "allow_none": ALLOW, "inputs": INPUTS,
                                             "doc": ["none", "plain"], "docvia": ["src"]}})
    return out


def _other_items(tier):
    out = []
    thorough = tier != "quick"
    common = [{"via": v, "chain": 2 if thorough else 1, "warm": w}
              for v in ("dir", "zip") for w in ((False, True) if thorough else (False,))]
    ctxs = ["top", "nested", "base", "base2", "param", "param2", "model"]
    for cm in common:
        for ctx in ctxs:
            # literal / picklable / module values x modes x names
            out.append({"kind": "ref", "fix": dict(cm, ctx=ctx),
                        "free": {"value": list(REF_VALUES), "mode": MODES, "name": REF_NAMES}})
            out.append({"kind": "ref", "fix": dict(cm, ctx=ctx, value="obj"),
                        "free": {"target": REF_TARGETS, "mode": MODES, "name": REF_NAMES}})
            out.append({"kind": "doc", "fix": dict(cm, ctx=ctx), "free": {"doc": DOC_IDS}})
        for ctx in ("top", "nested", "base", "base2", "param2"):
            for pf in PFORMULAS:
                out.append({"kind": "formula", "fix": dict(cm, ctx=ctx, pf=pf),
                            "free": {"items": ITEMS, "setvia": ["new", "set"]}})
        for ctx in ("top", "nested"):
            for shape in BASE_SHAPES:
                out.append({"kind": "bases", "fix": dict(cm, ctx=ctx, shape=shape),
                            "free": {"member": ["cells", "ref", "none"], "override": [False, True],
                                     "dinput": [False, True], "addvia": ["new", "add"]}})
            out.append({"kind": "allow", "fix": dict(cm, ctx=ctx),
                        "free": {"model_an": [False, True], "space_an": ALLOW, "cells_an": ALLOW}})
        for ctx in ("top", "nested", "param"):
            out.append({"kind": "names", "fix": dict(cm, ctx=ctx),
                        "free": {"pair": list(NAME_PAIRS), "inputs_on": ["none", "first", "second", "both"],
                                 "refs": ["none", "one", "pickled"]}})
    return out


def work_items(tier, seed):
    # the larger (reference) items first, the many small cells items fill the pool afterwards
    return _other_items(tier) + _cells_items(tier)


def cases_of(item):
    keys = sorted(item["free"])
    for combo in itertools.product(*[item["free"][k] for k in keys]):
        c = {"kind": item["kind"]}
        c.update(item["fix"])
        c.update(dict(zip(keys, combo)))
        yield norm(c)


def run_item(item, tier):
    counts = {"cases": 0, "roundtrips": 0, "na": 0, "unbuildable": 0, "write_errors": 0, "nontrivial": 0,
              "violating_cases": 0, "probe_evaluations": 0}
    outcomes = set()
    samples = []
    viols = {}
    extra = {"write_errors": [], "unbuildable": []}
    with Scratch() as sc:
        for case in cases_of(item):
            r = run_case(case, sc)
            if r["status"] == "na":
                counts["na"] += 1
                continue
            counts["cases"] += 1
            if r["status"] == "unbuildable":
                counts["unbuildable"] += 1
                s = "%s %s" % (r["reason"], js({k: v for k, v in case.items() if k not in ("via", "chain", "warm", "ctx")}))
                if s not in extra["unbuildable"] and len(extra["unbuildable"]) < 8:
                    extra["unbuildable"].append(s)
                continue
            if r["status"] == "write-error":
                counts["write_errors"] += 1
                s = "%s %s" % (r["reason"], js(case))
                if len(extra["write_errors"]) < 8:
                    extra["write_errors"].append(s)
            counts["roundtrips"] += r["roundtrips"]
            counts["probe_evaluations"] += r["probe_ok"]
            if r["roundtrips"] and r["probe_ok"]:
                counts["nontrivial"] += 1
                outcomes.add(r["digest"])
            if r["violations"]:
                counts["violating_cases"] += 1
            for v in r["violations"]:
                v = minimise(v, sc)
                viols.setdefault((v["clause"], js(v["case"])), v)
            if len(samples) < 2 and r["roundtrips"] and (counts["cases"] % 7 == 3):
                samples.append({"case": case, "program": gen(case)[0]})
    return {"counts": counts, "outcomes": sorted(outcomes), "samples": samples,
            "violations": [viols[k] for k in sorted(viols)], "extra": extra}


# ----------------------------------------------------------------------------------------
# reproduction script

_SCRIPT_TAIL = r'''
import os, shutil, tempfile
def _p(o):
    return ".".join(str(x) for x in o._idtuple[1:]) if hasattr(o, "_idtuple") else o
def _ins(c):
    one = len(c.parameters) == 1
    return {k: v for k, v in c.items() if c.is_input(*((k,) if one else k))}
def _show(m):
    out = {"doc": m.doc, "refs": {k: _p(v) for k, v in m.refs.items() if k[0] != "_"}}
    def walk(s, path):
        out[path] = {"bases": [_p(b) for b in s._direct_bases], "doc": s.doc,
                     "formula": s.formula and s.formula.source,
                     "refs": {k: (_p(s.refs[k]), s._get_object(k, as_proxy=True).refmode) for k in s._own_refs}}
        for n, c in s.cells.items():
            out[path + "." + n] = {"src": c.formula.source, "cached": c.is_cached, "allow_none": c.allow_none,
                                   "doc": c.doc, "inputs": _ins(c)}
        def dyn(it):
            for n, c in it.cells.items():
                ins = _ins(c)
                if ins:
                    out[repr(c)] = ins
            for ch in it.named_spaces.values():
                dyn(ch)
            for it2 in it.itemspaces.values():
                dyn(it2)
        for it in s.itemspaces.values():
            dyn(it)
        for n, ch in s.named_spaces.items():
            walk(ch, path + "." + n)
    for n, s in m.spaces.items():
        walk(s, n)
    return out
root = tempfile.mkdtemp()
try:
    cur = m
    before = _show(m)
    for stage in range(CHAIN):
        path = os.path.join(root, "model%d" % stage + (".zip" if ZIP else ""))
        (cur.zip if ZIP else cur.write)(path)
        cur = mx.read_model(path, name="R%d" % (stage + 1))      # clause 'readable' fails here
    after = _show(cur)
    for k in sorted(set(before) | set(after), key=str):
        if repr(before.get(k)) != repr(after.get(k)):
            print("DIFF", k, "\n  written:", before.get(k), "\n  read   :", after.get(k))
finally:
    shutil.rmtree(root)
'''


def script(case):
    c = full(case)
    lines, items = gen(case)
    L = list(lines)
    L.append("ZIP, CHAIN = %r, %r" % (c["via"] == "zip", c["chain"]))
    L.append(_SCRIPT_TAIL)
    return "\n".join(L)


# ----------------------------------------------------------------------------------------
# evidence

def coverage(agg, tier):
    c = agg["counts"]
    return {
        "evaluations": c.get("roundtrips", 0),
        "distinct_nontrivial": len(agg["outcomes"]),
        "rule": "one focus construct (cells / reference / doc / parameter formula + ItemSpace inputs / inheritance "
                "shape / allow_none) over the full cross product of its attribute menus x contexts x {dir, zip}"
                + (" x chain write-read-write-read x {cold, warm}" if tier != "quick" else "") +
                "; evaluations = write->read round trips executed; distinct_nontrivial = number of distinct "
                "public-description digests of models that were written, read back and on which at least one probe "
                "query evaluated a formula successfully (measured: a set of digests, not a product of menu sizes)",
        "exhaustive": True,
        "cases": c.get("cases", 0),
        "not_applicable_combinations": c.get("na", 0),
        "unbuildable_combinations": c.get("unbuildable", 0),
        "write_errors": c.get("write_errors", 0),
        "violating_cases_raw": c.get("violating_cases", 0),
        "probe_evaluations": c.get("probe_evaluations", 0),
        "menus": {"docs": len(DOCS), "cells_forms": len(FORMS), "inputs": len(INPUTS), "ref_values": len(REF_VALUES),
                  "ref_targets": len(REF_TARGETS), "param_formulas": len(PFORMULAS), "item_patterns": len(ITEMS),
                  "base_shapes": len(BASE_SHAPES)},
    }


def vacuity(agg, tier):
    c = agg["counts"]
    if c.get("roundtrips", 0) < 1000:
        return "fewer than 1000 round trips executed"
    if len(agg["outcomes"]) < 300:
        return "fewer than 300 distinct model descriptions round-tripped"
    if c.get("probe_evaluations", 0) < c.get("roundtrips", 0):
        return "probe queries hardly evaluated anything"
    if c.get("unbuildable", 0) * 10 > c.get("cases", 1) * 6:
        return "more than 60% of the generated programs were rejected by the API while building"
